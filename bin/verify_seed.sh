#!/bin/bash
# usage: bin/verify_seed.sh /tmp/seed/<name> : confirm (a) suite passes with the patch, (b) demo PASS on original, (c) demo FAIL on mutant
set -u
S=$1; name=$(basename $S); W=/tmp/wt/vs_$name
rm -rf $W; git -C /repo worktree prune
git -C /repo worktree add -q --detach $W HEAD || exit 2
rsync -a --ignore-existing --exclude .git /repo/ $W/
cd $W && git apply $S/patch.diff || { echo "APPLY-FAILED"; git -C /repo worktree remove --force $W; exit 2; }
make -j8 check > $W/../vs_$name.log 2>&1
suite=$(grep -E "PASSED|FAILED" $W/test/test_all.log | tail -1)
echo "suite(mutant): $suite"
cd $S
if [ -f run.sh ]; then
  bash run.sh /repo > orig.out 2>&1; o=$?
  bash run.sh $W > mut.out 2>&1; m=$?
else
  gcc -g -I/repo -I/repo/htp demo.c /repo/htp/.libs/libhtp.a -lz -o demo_o && ./demo_o > orig.out 2>&1; o=$?
  gcc -g -I$W -I$W/htp demo.c $W/htp/.libs/libhtp.a -lz -o demo_m && ./demo_m > mut.out 2>&1; m=$?
fi
echo "demo original exit=$o ($(tail -1 orig.out))"
echo "demo mutant   exit=$m ($(tail -1 mut.out))"
git -C /repo worktree remove --force $W; rm -f $W/../vs_$name.log
if echo "$suite" | grep -q "PASSED  \] 341" && [ $o -eq 0 ] && [ $m -ne 0 ]; then echo "SEED-OK $name"; exit 0; else echo "SEED-BAD $name"; exit 1; fi

#!/usr/bin/env python3
"""regenerates MANIFEST.json from the table below (claimed checks) + properties.jsonl (everything else -> not_applicable)"""
import json, os
V = os.path.dirname(os.path.dirname(os.path.abspath(__file__)))
TECH = 'bounded symbolic model checking of the real C units (CBMC 6.11 on goto-cc builds of /repo/htp), SAT verdict per obligation, vacuity witness, native ASan/UBSan replay of counterexamples'
CLAIMS = {
 'C13': dict(text='Bounded model checking: for every request target of <= 7 bytes (all byte values; thorough: 8 bytes, 10 bytes over the property alphabet) the real htp_parse_uri / htp_parse_hostport / port normalisation satisfy the partition-and-rejoin oracle; the SAT solver decides each statement for all inputs inside the bound. Right level because the splitter is leaf index arithmetic whose interesting inputs (delimiter adjacencies) are rare but short.',
             note='Assumes the fixed-capacity bstr_alloc model and the memchr loop model; longer targets and allocation failure are outside the claim. One open known finding (C13-ipv6-tail) is excluded by an input predicate and re-demonstrated on every run.', ref='DESIGN.md section 4 C13'),
}
CLAIMS['C17'] = dict(text='Bounded model checking with an inductive step for the list: one (and two) operations of the real htp_list_array_* from EVERY ring state of capacity 1..4 (thorough ..8) equal the abstract sequence and preserve the ring invariant, so histories of any length within that capacity are covered; table as ordered case-insensitive multimap (<=2-3 pairs); every bstr compare/search/prefix/edit primitive against a 5-line mathematical definition (all byte values, haystack <=4-6); number parsers against unsigned __int128 references up to 20 decimal / 17 hex digits (all digit strings around 2^31, 2^63, 2^64).',
             note='Capacities above 8, longer strings and allocation failure are outside; CBMC ctype models stand in for glibc tolower/isspace. One defect found here was repaired (fix: 756910b, replace at SIZE_MAX).', ref='DESIGN.md section 4 C17')
CLAIMS['C12'] = dict(text='Bounded model checking, differential: the real htp_decode_path_inplace, htp_urldecode_inplace_ex (all three contexts), htp_utf8_decode_path_inplace / htp_utf8_validate_path and htp_normalize_uri_path_inplace are compared with independent reference models on every input of <= 4-7 bytes with EVERY decoder switch symbolic (output bytes, anomaly flags, expected status), plus never-longer, no-dot-segment and idempotence assertions. The solver quantifies over the whole configuration lattice at once, which enumeration by personality cannot.',
             note='Reference models live in harness/C12 (decmodel.h, dotseg.c, utf8.c); the built-in best-fit table is replaced by a 4-entry map; paths longer than the bound are outside. Two defects found here were repaired (fix: 1a754d4 raw-NUL flag, d01edfc half/full-width range).', ref='DESIGN.md section 4 C12')
NA_REASON = {}
def main():
    props = [json.loads(l) for l in open(os.path.join(V, 'properties.jsonl'))]
    checks = []; na = []
    for p in props:
        pid = p['id']
        if pid in CLAIMS:
            c = CLAIMS[pid]
            checks.append({'property_id': pid, 'quick_cmd': 'bin/check %s --tier quick' % pid, 'thorough_cmd': 'bin/check %s --tier thorough' % pid,
                           'evidence_file': 'evidence/%s.json' % pid, 'replay_cmd_template': 'bin/check %s --tier thorough --replay {path}' % pid, 'engine': 'cbmc',
                           'level_claimed': {'category': 'model_checking', 'text': c['text'], 'design_ref': c['ref']}, 'level_note': c['note'], 'technique': c.get('technique', TECH)})
        else:
            na.append({'property_id': pid, 'reason': NA_REASON.get(pid, 'check not built yet (framework under construction; see DESIGN.md)')})
    m = {'version': 1, 'setup_cmd': 'true',
         'hooks': {'guard': 'LIBHTP_VERIF', 'enable': 'every check compiles /repo/htp/*.c itself with goto-cc/gcc -DLIBHTP_VERIF (no library build needed)', 'baseline_off_cmd': 'make -C /repo check', 'source_commits': [], 'add_only': True},
         'engines': [{'name': 'cbmc', 'path': 'bin/check', 'serves_properties': sorted(CLAIMS), 'kind_free_text': 'bounded symbolic checking of the real C units (CBMC 6.11 via goto-cc, SAT back ends minisat/cadical/kissat) with native ASan/UBSan replay of every counterexample'}],
         'checks': checks, 'not_applicable': na,
         'notes': 'All checks rebuild their goto binaries from /repo working tree on every run (scratch under $VERIF_SCRATCH or /var/tmp, removed at exit). Exit 0 = every obligation discharged; 1 = VIOLATION (solver counterexample reproduced natively); 2 = inconclusive (timeout / memory / unwinding / vacuous witness) - never reported as success.'}
    json.dump(m, open(os.path.join(V, 'MANIFEST.json'), 'w'), indent=1)
if __name__ == '__main__': main()

#!/bin/bash
# usage: bin/seedtest.sh <seed dir> <Cxx> [extra bin/check args]: apply patch to /repo, run the check, always revert
S=$1; P=$2; shift 2
cd /repo && git diff --quiet || { echo "/repo dirty, abort"; exit 2; }
git -C /repo apply $S/patch.diff || { echo APPLY-FAILED; exit 2; }
cd /verif && bin/check $P --no-evidence "$@" > /tmp/seedtest.$$.out 2>&1; rc=$?
git -C /repo checkout -- .
grep -E "VIOLATION|INCONCLUSIVE|tier=" /tmp/seedtest.$$.out | cut -c1-260
echo "seed=$(basename $S) check=$P exit=$rc"
rm -f /tmp/seedtest.$$.out
exit $rc

#!/usr/bin/env python3
"""bin/seeds_table.py: regenerate the seeded-changes table of DESIGN.md (between the table header and section 0.6) from seeded/*/meta.json"""
import json, os, re
V = os.path.dirname(os.path.dirname(os.path.abspath(__file__)))
rows = []
for name in sorted(os.listdir(os.path.join(V, 'seeded'))):
    p = os.path.join(V, 'seeded', name, 'meta.json')
    if not os.path.exists(p): continue
    m = json.load(open(p))
    cell = lambda t: str(t or '').replace('|', '/').replace('\n', ' ')
    rows.append('| %s | %s | %s | %s |' % (name, cell(m.get('needs_to_manifest')), cell(m.get('detected_by')), cell(m.get('note'))))
d = open(os.path.join(V, 'DESIGN.md')).read()
a = d.index('| seed | needs to manifest | caught by | note |'); b = d.index('### 0.6 Cost')
d = d[:a] + '| seed | needs to manifest | caught by | note |\n|---|---|---|---|\n' + '\n'.join(rows) + '\n\n' + d[b:]
open(os.path.join(V, 'DESIGN.md'), 'w').write(d)
missed = [r for r in rows if 'MISSED' in r.split('|')[3]]
print(len(rows), 'seeds,', len(missed), 'missed:', [r.split('|')[1].strip() for r in missed])

#!/bin/bash
# usage: bin/seedtest_wt.sh <seed dir> <Cxx> [extra bin/check args]: same as seedtest.sh but on a scratch worktree of /repo
# (VERIF_REPO), so that several seeded changes can be triaged in parallel; the worktree is removed afterwards
S=$1; P=$2; shift 2; name=$(basename $S); W=/tmp/wt/st_${name}_$P
rm -rf $W; git -C /repo worktree prune
git -C /repo worktree add -q --detach $W HEAD || exit 2
cp /repo/htp_config_auto_gen.h $W/; cp /repo/htp/htp_version.h $W/htp/ 2>/dev/null
git -C $W apply $S/patch.diff || { echo APPLY-FAILED; git -C /repo worktree remove --force $W; exit 2; }
cd /verif && VERIF_REPO=$W VERIF_MEM_GB=${VERIF_MEM_GB:-20} VERIF_JOBS=${VERIF_JOBS:-6} bin/check $P --no-evidence "$@" > /tmp/seedtest.$name.$P.out 2>&1; rc=$?
git -C /repo worktree remove --force $W
grep -E "VIOLATION|INCONCLUSIVE|tier=" /tmp/seedtest.$name.$P.out | cut -c1-260
echo "seed=$name check=$P exit=$rc"
exit $rc

#!/usr/bin/env python3
"""bin/keep_seed.py <seed dir> <property> <needs> <detected-by|MISSED> [note]: copy a confirmed seeded change into /verif/seeded/<name>/ with meta.json"""
import sys, os, shutil, json
src, prop, needs, det = sys.argv[1:5]; note = sys.argv[5] if len(sys.argv) > 5 else ''
name = os.path.basename(src.rstrip('/'))
dst = os.path.join(os.path.dirname(os.path.dirname(os.path.abspath(__file__))), 'seeded', name)
os.makedirs(dst, exist_ok=True)
for f in os.listdir(src):
    p = os.path.join(src, f)
    if os.path.isfile(p) and os.path.getsize(p) < 200000 and not f.endswith('.out') and not os.access(p, os.X_OK) or f in ('run.sh',):
        shutil.copy(p, dst)
meta = {'property': prop, 'breaks': prop, 'needs_to_manifest': needs,
        'confirmed': 'bin/verify_seed.sh %s: suite on mutant 341 passed, demo PASS on /repo, demo FAIL on mutant (scratch worktree under /tmp/wt, removed)' % src,
        'check_run': 'bin/seedtest.sh %s %s (git apply to /repo, bin/check %s --tier quick, git checkout -- .)' % (src, prop, prop),
        'detected_by': det, 'note': note}
json.dump(meta, open(os.path.join(dst, 'meta.json'), 'w'), indent=1)
print('kept', dst)

#!/usr/bin/env python3
"""Obligation runner: goto-cc build of the real units from /repo's working tree, CBMC query,
vacuity witness, known-finding protocol, native replay of counterexamples, evidence writer.
No third-party dependencies."""
import os, sys, json, hashlib, subprocess, shutil, time, threading, resource, re, fnmatch, tempfile, atexit, signal
from concurrent.futures import ThreadPoolExecutor

VERIF = os.path.dirname(os.path.dirname(os.path.abspath(__file__)))
REPO = os.environ.get('VERIF_REPO', '/repo')
HTP = os.path.join(REPO, 'htp')
COMMON = os.path.join(VERIF, 'harness', 'common')
GUARD = 'LIBHTP_VERIF'
STD_INC = ['-I' + REPO, '-I' + HTP, '-I' + COMMON, '-I' + os.path.join(VERIF, 'harness')]
STD_DEF = ['-D_GNU_SOURCE', '-D__NO_CTYPE', '-D' + GUARD, '-DHAVE_CONFIG_H']
MEM_BUDGET_GB = int(os.environ.get('VERIF_MEM_GB', '52'))
MAX_JOBS = int(os.environ.get('VERIF_JOBS', '16'))

_scratch = None
_mem = {'free': MEM_BUDGET_GB}
_mem_cond = threading.Condition()
_proc_sem = threading.Semaphore(MAX_JOBS)
def scratch():
    global _scratch
    if _scratch is None:
        base = os.environ.get('VERIF_SCRATCH') or '/var/tmp'
        os.makedirs(base, exist_ok=True)
        _scratch = tempfile.mkdtemp(prefix='libhtp-verif.', dir=base)
        atexit.register(lambda: shutil.rmtree(_scratch, ignore_errors=True))
    return _scratch


class Ob:
    """One obligation = one universal statement decided by one CBMC query (plus its KF variants)."""
    def __init__(self, name, harness, units=(), models=(), defines=None, unit_defines=None,
                 unit_includes=(), remove=(), unwind=None, unwindset=(), restrict=(), flags=(),
                 timeout=300, mem_gb=6, kfs=(), kf_cover=True, tier='quick', note='', leak=False,
                 restrict_by=(), unwind_by=(), static_allow=None, kf_only=False, unwind_violation=False, statement='', bounds='', expect_covers=True, solver=None,
                 object_bits=10, malloc_may_fail=False, native_libs=('-lz',), cost=None, fp_strict=False):
        self.name = name; self.harness = harness; self.units = list(units); self.models = list(models)
        self.defines = dict(defines or {}); self.unit_defines = dict(unit_defines or {})
        self.unit_includes = list(unit_includes); self.remove = list(remove)
        self.unwind = unwind; self.unwindset = list(unwindset); self.restrict = list(restrict)
        self.flags = list(flags); self.timeout = timeout; self.mem_gb = mem_gb; self.kfs = list(kfs)
        self.kf_cover = kf_cover; self.tier = tier; self.note = note; self.leak = leak
        self.static_allow = static_allow; self.restrict_by = list(restrict_by); self.unwind_by = list(unwind_by); self.kf_only = kf_only; self.unwind_violation = unwind_violation; self.statement = statement; self.bounds = bounds
        self.expect_covers = expect_covers; self.solver = solver; self.object_bits = object_bits
        self.malloc_may_fail = malloc_may_fail; self.native_libs = list(native_libs)
        self.cost = cost if cost is not None else timeout
        self.fp_strict = fp_strict


def sh(cmd, timeout=None, mem_gb=None, env=None, cwd=None):
    def pre():
        os.setsid()
        if mem_gb:
            b = int(mem_gb * (1 << 30)); resource.setrlimit(resource.RLIMIT_AS, (b, b))
    t0 = time.time()
    p = subprocess.Popen(cmd, stdout=subprocess.PIPE, stderr=subprocess.PIPE, preexec_fn=pre, env=env, cwd=cwd)
    try:
        out, err = p.communicate(timeout=timeout)
        to = False
    except subprocess.TimeoutExpired:
        try: os.killpg(p.pid, signal.SIGKILL)
        except Exception: pass
        out, err = p.communicate(); to = True
    ru = None
    return p.returncode, out.decode('utf-8', 'replace'), err.decode('utf-8', 'replace'), time.time() - t0, to


_build_lock = threading.Lock()
_build_locks = {}
def _once(key, fn):
    """build-cache: run fn once per key (thread safe), return its path"""
    with _build_lock:
        lk = _build_locks.setdefault(key, threading.Lock())
    with lk:
        return fn()

def hkey(*parts):
    return hashlib.sha1(json.dumps(parts, sort_keys=True).encode()).hexdigest()[:16]

class BuildError(Exception): pass

def dflags(d):
    return ['-D%s=%s' % (k, v) if v is not None else '-D%s' % k for k, v in sorted(d.items())]

def src_path(u):
    """unit name -> source path: real units are relative to /repo/htp, '@x' is /verif/harness/common/x,
    anything else relative to /verif/harness"""
    if u.startswith('@'): return os.path.join(COMMON, u[1:])
    if os.path.isabs(u): return u
    p = os.path.join(HTP, u)
    if os.path.exists(p): return p
    return os.path.join(VERIF, 'harness', u)

def goto_compile(src, defines, includes=(), native=False):
    key = hkey('cc', src, defines, list(includes), native, os.path.getmtime(src))
    out = os.path.join(scratch(), key + ('.o' if native else '.gb'))
    def build():
        if os.path.exists(out): return out
        inc = []
        for i in includes: inc += ['-include', src_path(i)]
        if native:
            cmd = ['gcc', '-c', '-O0', '-g', '-fno-inline', '-fsanitize=address,undefined', '-fno-sanitize-recover=undefined',
                   '-fno-omit-frame-pointer', '-w', '-std=gnu99', '-DVERIF_NATIVE'] + STD_INC + STD_DEF + dflags(defines) + inc + ['-o', out, src]
        else:
            cmd = ['goto-cc', '-c', '-std=gnu99'] + STD_INC + STD_DEF + dflags(defines) + inc + ['-o', out, src]
        rc, o, e, _, _ = sh(cmd, timeout=300)
        if rc != 0 or not os.path.exists(out):
            raise BuildError('compile failed: %s\n%s%s' % (' '.join(cmd), o[-3000:], e[-3000:]))
        return out
    return _once(key, build)

def remove_bodies(gb, funcs, native=False):
    if not funcs: return gb
    key = hkey('rm', gb, sorted(funcs), native)
    out = os.path.join(scratch(), key + ('.o' if native else '.gb'))
    def build():
        if os.path.exists(out): return out
        if native:
            cmd = ['objcopy'] + ['--weaken-symbol=' + f for f in funcs] + [gb, out]
        else:
            cmd = ['goto-instrument'] + sum([['--remove-function-body', f] for f in funcs], []) + [gb, out]
        rc, o, e, _, _ = sh(cmd, timeout=120)
        if rc != 0 or not os.path.exists(out):
            raise BuildError('remove-body failed: %s\n%s%s' % (' '.join(cmd), o[-2000:], e[-2000:]))
        return out
    return _once(key, build)

def build_goto(ob, extra_defs):
    """returns path of the linked (and fp-restricted) goto binary"""
    defs = dict(ob.defines); defs.update(extra_defs)
    parts = []
    parts.append(goto_compile(src_path(ob.harness), defs))
    for m in list(ob.models) + ['@ghost.c']:
        parts.append(goto_compile(src_path(m), defs))
    for u in ob.units:
        g = goto_compile(src_path(u), ob.unit_defines, ob.unit_includes)
        parts.append(remove_bodies(g, ob.remove))
    key = hkey('link', parts, ob.restrict, ob.restrict_by, ob.fp_strict)
    out = os.path.join(scratch(), key + '.gb')
    def build():
        if os.path.exists(out): return out
        tmp = out + '.l.gb'
        rc, o, e, _, _ = sh(['goto-cc', '-o', tmp] + parts, timeout=300)
        if rc != 0 or not os.path.exists(tmp):
            raise BuildError('link failed\n%s%s' % (o[-3000:], e[-3000:]))
        restrict = list(ob.restrict)
        if ob.restrict_by:
            # name every function-pointer call site whose pointer expression matches a pattern and pin it to the
            # harness's targets (goto-instrument inserts an assertion that the pointer is one of them)
            # fp_strict obligations: label every call site (a by-name restriction of a symbol that does not exist labels and writes
            # the program) and pin the matching sites to the harness's targets. Obligations written before this was found use the
            # old invocation, which goto-instrument rejects before writing anything: no site is pinned and CBMC's own
            # type-based over-approximation of the targets stays in force (sound, only slower); their verdicts were obtained so.
            if ob.fp_strict:
                rc, o, e, _, _ = sh(['goto-instrument', '--restrict-function-pointer-by-name', '__verif_none__/harness', tmp, tmp + '.lab.gb'], timeout=300)
            else:
                rc, o, e, _, _ = sh(['goto-instrument', '--restrict-function-pointer', '__verif_none__.function_pointer_call.1/harness', tmp, tmp + '.lab.gb'], timeout=300)
            rc, o, e, _, _ = sh(['goto-instrument', '--show-goto-functions', tmp + '.lab.gb'], timeout=300)
            try: os.unlink(tmp + '.lab.gb')
            except OSError: pass
            for m in re.finditer(r'ASSIGN (\S+\.function_pointer_call\.\d+) := (.*)', o):
                label, expr = m.group(1), m.group(2)
                for pat, targets in ob.restrict_by:
                    if re.search(pat, expr):
                        restrict.append('%s/%s' % (label, targets)); break
        if restrict:
            cmd = ['goto-instrument'] + sum([['--restrict-function-pointer', r] for r in restrict], []) + [tmp, out]
            rc, o, e, _, _ = sh(cmd, timeout=300)
            if rc != 0 or not os.path.exists(out):
                raise BuildError('restrict-function-pointer failed: %s\n%s%s' % (' '.join(cmd), o[-3000:], e[-3000:]))
            os.unlink(tmp)
        else:
            os.rename(tmp, out)
        return out
    return _once(key, build)

def build_native(ob, extra_defs):
    defs = dict(ob.defines); defs.update(extra_defs)
    parts = [goto_compile(src_path(ob.harness), defs, native=True)]
    for m in list(ob.models) + ['@native_main.c']:
        parts.append(goto_compile(src_path(m), defs, native=True))
    for u in ob.units:
        g = goto_compile(src_path(u), ob.unit_defines, ob.unit_includes, native=True)
        parts.append(remove_bodies(g, ob.remove, native=True))
    key = hkey('nlink', parts)
    out = os.path.join(scratch(), key + '.exe')
    def build():
        if os.path.exists(out): return out
        extra = []
        for attempt in range(4):
            cmd = ['gcc', '-fsanitize=address,undefined', '-o', out] + parts + extra + ob.native_libs
            rc, o, e, _, _ = sh(cmd, timeout=300)
            if rc == 0: return out
            und = sorted(set(re.findall(r"undefined reference to `([A-Za-z_][A-Za-z0-9_]*)'", e)))
            if not und: break
            # functions that the harness never reaches (dropped by CBMC as unused): abort() stubs
            stub = out + '.stub%d.c' % attempt
            with open(stub, 'w') as f:
                f.write('#include <stdio.h>\n#include <stdlib.h>\n')
                for u in und: f.write('void %s(void){ fprintf(stderr,"VERIF-UNLINKED-FUNCTION-CALLED %s\\n"); abort(); }\n' % (u, u))
            so = stub[:-2] + '.o'
            sh(['gcc', '-c', '-w', '-o', so, stub], timeout=60)
            extra.append(so)
        raise BuildError('native link failed: %s\n%s%s' % (' '.join(cmd), o[-3000:], e[-3000:]))
    return _once(key, build)

_loops_cache = {}
def loop_bounds(ob, gb):
    """per-loop bounds by pattern: loop numbering shifts whenever a function gains or loses a loop, so the names are read from
    the binary on every run (cbmc --show-loops) and matched against (regex, bound) pairs; first match wins"""
    if not ob.unwind_by: return []
    if gb not in _loops_cache:
        rc, o, e, _, _ = sh(['cbmc', gb, '--function', 'harness', '--drop-unused-functions', '--show-loops'], timeout=300, mem_gb=8)
        _loops_cache[gb] = re.findall(r'^Loop (\S+):', o, re.M)
    out = []
    for name in _loops_cache[gb]:
        for pat, bound in ob.unwind_by:
            if re.search(pat, name):
                out.append('%s:%d' % (name, bound)); break
    return out

def cbmc_cmd(ob, gb, trace_prop=None):
    cmd = ['cbmc', gb, '--function', 'harness', '--unwinding-assertions', '--drop-unused-functions',
           '--object-bits', str(ob.object_bits), '--json-ui', '--verbosity', '6']
    if not ob.malloc_may_fail: cmd.append('--no-malloc-may-fail')
    if ob.unwind is not None: cmd += ['--unwind', str(ob.unwind)]
    us = list(ob.unwindset) + loop_bounds(ob, gb)
    if us: cmd += ['--unwindset', ','.join(us)]
    if ob.leak: cmd.append('--memory-leak-check')
    if ob.solver == 'kissat': cmd += ['--external-sat-solver', 'kissat']
    elif ob.solver == 'cadical': cmd += ['--sat-solver', 'cadical']
    elif ob.solver == 'z3': cmd += ['--z3']
    cmd += ob.flags
    if trace_prop: cmd += ['--trace', '--property', trace_prop]
    return cmd

def parse_cbmc(out):
    """-> (results list or None, errors list, stats dict)"""
    try:
        data = json.loads(out)
    except Exception:
        # truncated output (killed): try to salvage nothing
        return None, ['unparsable cbmc output'], {}
    res = None; errs = []; stats = {}
    for m in data:
        if not isinstance(m, dict): continue
        if 'result' in m: res = m['result']
        if m.get('messageType') == 'ERROR': errs.append(m.get('messageText', ''))
        t = m.get('messageText', '')
        if isinstance(t, str):
            mm = re.match(r'Runtime (Symex|Solver|Postprocess Equation|Convert SSA|decision procedure): ([0-9.e+-]+)s', t)
            if mm: stats[mm.group(1)] = stats.get(mm.group(1), 0) + float(mm.group(2))
            mm = re.match(r'size of program expression: (\d+) steps', t)
            if mm: stats['steps'] = int(mm.group(1))
            mm = re.match(r'(\d+) variables, (\d+) clauses', t)
            if mm: stats['vars'] = int(mm.group(1)); stats['clauses'] = int(mm.group(2))
    return res, errs, stats

def trace_inputs(res, prop):
    for r in res:
        if r.get('property') == prop and 'trace' in r:
            vals = []
            for st in r['trace']:
                if st.get('stepType') != 'assignment': continue
                if st.get('lhs') != 'verif_in': continue
                fn = (st.get('sourceLocation') or {}).get('function', '')
                if fn in ('', '__CPROVER_initialize'): continue
                v = st.get('value', {})
                if 'binary' in v: vals.append(int(v['binary'], 2))
                else: vals.append(int(v.get('data', '0')))
            return vals
    return None

def classify(results):
    """split cbmc per-property results"""
    wit = [r for r in results if r.get('description', '').startswith('VERIF_WITNESS')]
    cov = [r for r in results if r.get('description', '').startswith('VERIF_COVER')]
    unw = [r for r in results if '.unwind.' in r.get('property', '') or r.get('description', '').startswith('unwinding assertion')
           or '.recursion' in r.get('property', '')]
    special = set(id(r) for r in wit + cov + unw)
    rest = [r for r in results if id(r) not in special]
    return wit, cov, unw, rest


class Run:
    """result of one cbmc query"""
    def __init__(self): self.status = None; self.detail = ''; self.seconds = 0; self.nprops = 0; self.stats = {}; self.failed = []; self.covers = {}; self.witness = None; self.cmd = ''; self.unwind_failed = []

def run_query(ob, extra_defs):
    r = Run()
    try:
        gb = build_goto(ob, extra_defs)
        # the native twin is linked up front as well: a duplicate definition (harness stub vs real unit), which
        # goto-cc resolves silently, is a link error here, and a later replay cannot fail for build reasons
        build_native(ob, extra_defs)
    except BuildError as e:
        r.status = 'build-error'; r.detail = str(e); return r, None
    cmd = cbmc_cmd(ob, gb)
    r.cmd = ' '.join(cmd).replace(scratch(), '$SCRATCH')
    rc, out, err, secs, to = gated(ob, lambda: sh(cmd, timeout=ob.timeout, mem_gb=ob.mem_gb))
    r.seconds = round(secs, 2)
    if to:
        r.status = 'timeout'; r.detail = 'no verdict within %ds' % ob.timeout; return r, gb
    res, errs, stats = parse_cbmc(out)
    r.stats = stats
    if res is None:
        r.status = 'error'; r.detail = 'rc=%s %s %s' % (rc, '; '.join(errs)[:500], err[-500:])
        if rc in (-9, -6, 134, 137) or 'bad_alloc' in err or 'Out of memory' in err or 'out of memory' in (out[-2000:] + err).lower():
            r.status = 'out-of-memory'
        return r, gb
    r.nprops = len(res)
    wit, cov, unw, rest = classify(res)
    r.witness = bool(wit) and all(w['status'] == 'FAILURE' for w in wit)
    r.covers = {c['description'][len('VERIF_COVER '):]: (c['status'] == 'FAILURE') for c in cov}
    r.unwind_failed = [u for u in unw if u['status'] == 'FAILURE']
    r.failed = [x for x in rest if x['status'] == 'FAILURE']
    unknown = [x for x in res if x['status'] not in ('SUCCESS', 'FAILURE')]
    if unknown and not r.failed:
        r.status = 'error'; r.detail = 'properties with status %s' % set(x['status'] for x in unknown); return r, gb
    if r.failed: r.status = 'failed'
    elif r.unwind_failed: r.status = 'unwind'
    elif not wit: r.status = 'error'; r.detail = 'harness has no VERIF_WITNESS'
    elif not r.witness: r.status = 'vacuous'; r.detail = 'witness not reachable'
    elif ob.expect_covers and not all(r.covers.values()):
        r.status = 'vacuous'; r.detail = 'cover goals not reachable: %s' % [k for k, v in r.covers.items() if not v]
    else: r.status = 'success'
    return r, gb

def gated(ob, fn):
    need = min(ob.mem_gb, MEM_BUDGET_GB)
    with _mem_cond:
        while _mem['free'] < need: _mem_cond.wait()
        _mem['free'] -= need
    _proc_sem.acquire()
    try:
        return fn()
    finally:
        _proc_sem.release()
        with _mem_cond:
            _mem['free'] += need; _mem_cond.notify_all()

def get_trace(ob, gb, prop):
    cmd = cbmc_cmd(ob, gb, trace_prop=prop)
    rc, out, err, secs, to = gated(ob, lambda: sh(cmd, timeout=ob.timeout * 2, mem_gb=ob.mem_gb))
    if not to:
        res, errs, stats = parse_cbmc(out)
        if res is not None:
            v = trace_inputs(res, prop)
            if v is not None: return v
    # some properties (unwinding assertions) cannot be selected with --property: take the first failing trace instead
    cmd = cbmc_cmd(ob, gb) + ['--trace', '--stop-on-fail']
    rc, out, err, secs, to = gated(ob, lambda: sh(cmd, timeout=ob.timeout * 2, mem_gb=ob.mem_gb))
    if to: return None
    try: data = json.loads(out)
    except Exception: return None
    for m in data:
        if isinstance(m, dict) and 'result' in m:
            for r in m['result']:
                if 'trace' in r and not r.get('description', '').startswith('VERIF_'):
                    return trace_inputs(m['result'], r.get('property'))
    return None

def native_replay(ob, extra_defs, values=None, replay_file=None):
    """-> (verdict, text): verdict in confirmed-assert, confirmed-sanitizer, confirmed-hang, unconfirmed, mismatch, build-error"""
    try:
        exe = build_native(ob, extra_defs)
    except BuildError as e:
        return 'build-error', str(e)[-1500:]
    if replay_file is None:
        fd, replay_file = tempfile.mkstemp(prefix='replay.', dir=scratch())
        with os.fdopen(fd, 'w') as f: f.write('\n'.join(str(v) for v in values) + '\n')
    env = dict(os.environ); env['VERIF_REPLAY'] = replay_file
    env['ASAN_OPTIONS'] = 'detect_leaks=%d:abort_on_error=0:exitcode=12:allocator_may_return_null=1' % (1 if ob.leak else 0)
    env['UBSAN_OPTIONS'] = 'halt_on_error=1:exitcode=13:print_stacktrace=1'
    env['LSAN_OPTIONS'] = 'exitcode=14'
    rc, out, err, secs, to = sh([exe], timeout=30, env=env)
    txt = (out + err)[-3000:]
    if to: return 'confirmed-hang', 'native replay did not return within 30 s'
    if rc == 10: return 'confirmed-assert', txt
    if rc in (12, 13, 14) or 'AddressSanitizer' in err or 'runtime error:' in err or 'LeakSanitizer' in err or rc < 0:
        return 'confirmed-sanitizer', txt
    if rc in (77, 78): return 'mismatch', txt
    return 'unconfirmed', txt


def load_known_findings():
    p = os.path.join(VERIF, 'known_findings.json')
    if not os.path.exists(p): return {}
    d = json.load(open(p))
    return {f['id']: f for f in d.get('findings', [])}

def kf_macro(kid): return 'KF_MODE_' + re.sub(r'[^A-Za-z0-9]', '_', kid)

BUILTIN_UB = ('pointer', 'bounds', 'overflow', 'shift', 'division', 'dereference', 'free', 'memory-leak', 'precondition', 'alloc')

def static_scan(ob, prop_id):
    """structural side-check (not a solver query): every object with static storage defined in /repo sources, read from the goto
    symbol table of the freshly compiled units; a writable one that is not allow-listed is reported"""
    t0 = time.time(); found = []
    for u in ob.units:
        gb = goto_compile(src_path(u), ob.unit_defines, ob.unit_includes)
        rc, o, e, _, _ = sh(['goto-instrument', '--show-symbol-table', '--json-ui', gb], timeout=120)
        try: data = json.loads(o)
        except Exception: continue
        for m in data:
            if isinstance(m, dict) and 'symbolTable' in m:
                for name, sy in m['symbolTable'].items():
                    if not sy.get('isStaticLifetime') or sy.get('isType') or sy.get('isExtern'): continue
                    ty = sy.get('type', {})
                    if ty.get('id') == 'code': continue
                    loc = json.dumps(sy.get('location', {}))
                    if (REPO + '/') not in loc: continue
                    txt = json.dumps(ty)
                    const = '#constant' in txt
                    found.append({'symbol': name, 'unit': u, 'const': const})
    bad = [f for f in found if not f['const'] and f['symbol'] not in (ob.static_allow or [])]
    rec = {'obligation': ob.name, 'harness': '(goto symbol table scan)', 'units': ob.units, 'statement': ob.statement, 'bounds': ob.bounds, 'known_findings': [], 'violations': [],
           'queries': [{'variant': 'scan', 'status': 'success' if not bad else 'failed', 'seconds': round(time.time() - t0, 2), 'properties': len(found), 'cmd': 'goto-instrument --show-symbol-table --json-ui <unit>.gb', 'detail': json.dumps(found)[:3000], 'witness_reachable': len(found) > 0, 'covers': {}, 'solver_stats': {}}]}
    if bad:
        d = os.path.join(VERIF, 'replays', prop_id); os.makedirs(d, exist_ok=True)
        path = os.path.join(d, 'static_scan.replay')
        open(path, 'w').write('\n'.join('%s (%s)' % (b['symbol'], b['unit']) for b in bad) + '\n')
        json.dump({'property_id': prop_id, 'obligation': ob.name, 'defines': {}, 'failed': 'writable static object', 'description': 'writable object with static storage that is not allow-listed: ' + ', '.join(b['symbol'] for b in bad), 'native_verdict': 'structural'}, open(path + '.json', 'w'), indent=1)
        rec['violations'].append({'property': 'static.scan', 'description': 'writable static storage: ' + ', '.join(b['symbol'] for b in bad), 'replay': path, 'native': 'structural'})
    rec['status'] = 'violation' if bad else ('discharged' if found else 'inconclusive')
    rec['seconds'] = rec['queries'][0]['seconds']
    return rec

def decide(ob, prop_id, kf_db, log):
    """runs one obligation completely; returns record dict"""
    if ob.static_allow is not None:
        rec = static_scan(ob, prop_id); log(ob, rec); return rec
    rec = {'obligation': ob.name, 'harness': ob.harness, 'units': ob.units, 'removed_bodies': ob.remove, 'models': ob.models,
           'defines': ob.defines, 'unwind': ob.unwind, 'unwindset': ob.unwindset, 'restrict_function_pointer': ob.restrict,
           'statement': ob.statement, 'bounds': ob.bounds, 'queries': [], 'status': None, 'known_findings': [], 'violations': []}
    open_kfs = [k for k in ob.kfs if k in kf_db and kf_db[k].get('status', 'open') == 'open']
    # a finding is re-demonstrated (and printed) only by the checks of the properties it is listed under; an obligation borrowed by
    # another property's check just excludes it
    own = lambda k: kf_db[k].get('property') == prop_id or prop_id in kf_db[k].get('also', [])
    base = {kf_macro(k): 1 for k in open_kfs}
    variants = [('main', base, None)]
    if ob.kf_only and open_kfs:
        # the whole input class of this obligation IS the listed finding: nothing is left to verify once it is excluded,
        # so only the re-demonstration runs; when the finding is marked fixed the obligation runs as an ordinary one
        variants = []
    if ob.kf_cover:
        for k in [k for k in open_kfs if own(k)]:
            d = dict(base); d[kf_macro(k)] = 2
            variants.append(('cover:' + k, d, k))
    worst = 'discharged'
    with ThreadPoolExecutor(max_workers=max(1, len(variants))) as vex:
        vres = list(vex.map(lambda v: run_query(ob, v[1]), variants))
    for (vname, defs, kid), (r, gb) in zip(variants, vres):
        q = {'variant': vname, 'status': r.status, 'seconds': r.seconds, 'properties': r.nprops, 'solver_stats': r.stats,
             'witness_reachable': r.witness, 'covers': r.covers, 'cmd': r.cmd, 'detail': r.detail[:2000]}
        rec['queries'].append(q)
        if kid is None:
            # main variant: must verify
            if r.status == 'success': continue
            if r.status in ('failed', 'unwind'):
                bad = r.failed if r.failed else r.unwind_failed
                if r.status == 'unwind' and not ob.unwind_violation:
                    worst = 'inconclusive'; q['detail'] = 'unwinding assertion failed: ' + ', '.join(u['property'] for u in bad); continue
                conf = None
                for f in bad[:3]:
                    vals = get_trace(ob, gb, f['property'])
                    if vals is None:
                        q.setdefault('notes', []).append('no trace for ' + f['property']); continue
                    verdict, txt = native_replay(ob, defs, vals)
                    q.setdefault('replays', []).append({'property': f['property'], 'description': f.get('description'), 'inputs': vals[:200], 'native': verdict, 'native_output': txt[-800:]})
                    ub = any(t in f['property'] for t in BUILTIN_UB) and not f['property'].startswith('harness.assertion')
                    if verdict.startswith('confirmed') or (ub and verdict == 'unconfirmed'):
                        conf = (f, vals, verdict); break
                if conf:
                    f, vals, verdict = conf
                    path = write_replay(prop_id, ob, defs, f, vals, verdict)
                    rec['violations'].append({'property': f['property'], 'description': f.get('description'), 'location': f.get('sourceLocation'), 'replay': path, 'native': verdict})
                    worst = 'violation'
                else:
                    worst = 'inconclusive' if worst != 'violation' else worst
                    q['detail'] = 'solver counterexample not reproduced natively: ' + ', '.join(f['property'] for f in bad[:5])
            else:
                if worst != 'violation': worst = 'inconclusive'
        else:
            # cover variant: the finding should still come back
            if r.status == 'failed':
                f = r.failed[0]
                vals = get_trace(ob, gb, f['property'])
                verdict, txt = ('no-trace', '') if vals is None else native_replay(ob, defs, vals)
                q['replays'] = [{'property': f['property'], 'description': f.get('description'), 'inputs': (vals or [])[:200], 'native': verdict, 'native_output': txt[-800:]}]
                rec['known_findings'].append({'id': kid, 'reproduced': True, 'native': verdict, 'failing': f.get('description'), 'inputs': (vals or [])[:64]})
            elif r.status == 'success':
                rec['known_findings'].append({'id': kid, 'reproduced': False})
            else:
                rec['known_findings'].append({'id': kid, 'reproduced': None, 'detail': r.status})
    rec['status'] = worst
    rec['seconds'] = round(sum(q['seconds'] for q in rec['queries']), 2)
    log(ob, rec)
    return rec

def write_replay(prop_id, ob, defs, f, vals, verdict):
    d = os.path.join(VERIF, 'replays', prop_id); os.makedirs(d, exist_ok=True)
    h = hashlib.sha1((ob.name + json.dumps(vals)).encode()).hexdigest()[:10]
    path = os.path.join(d, '%s-%s.replay' % (re.sub(r'[^A-Za-z0-9_.-]', '_', ob.name), h))
    with open(path, 'w') as fp:
        fp.write('\n'.join(str(v) for v in vals) + '\n')
    meta = {'property_id': prop_id, 'obligation': ob.name, 'defines': defs, 'failed': f.get('property'), 'description': f.get('description'),
            'location': f.get('sourceLocation'), 'native_verdict': verdict}
    json.dump(meta, open(path + '.json', 'w'), indent=1)
    return path


def repo_state():
    try:
        head = subprocess.run(['git', '-C', REPO, 'rev-parse', 'HEAD'], capture_output=True, text=True).stdout.strip()
        dirty = subprocess.run(['git', '-C', REPO, 'status', '--porcelain', '--', 'htp'], capture_output=True, text=True).stdout.strip()
        return head, bool([l for l in dirty.splitlines() if not l.startswith('??')])
    except Exception:
        return '', False

def functions_encoded(ob):
    """names of the functions defined in /repo sources that remain in the program after dropping unused ones"""
    try:
        gb = build_goto(ob, {kf_macro(k): 0 for k in ob.kfs})
        rc, o, e, _, _ = sh(['cbmc', gb, '--function', 'harness', '--drop-unused-functions', '--show-goto-functions'], timeout=180, mem_gb=8)
        names = set()
        for m in re.finditer(r'// \d+ file (\S+) line \d+ function (\S+)', o):
            f, fn = m.group(1), m.group(2)
            if os.path.abspath(f).startswith(REPO + '/'): names.add(fn)
        return sorted(names)
    except Exception as ex:
        return []


def main(prop_id, obligations_fn, argv, meta):
    import argparse
    ap = argparse.ArgumentParser()
    ap.add_argument('--tier', default=os.environ.get('VERIF_TIER', 'quick'), choices=['quick', 'thorough'])
    ap.add_argument('--replay'); ap.add_argument('--only', default=None); ap.add_argument('--no-evidence', action='store_true')
    ap.add_argument('--list', action='store_true'); ap.add_argument('--keep', action='store_true')
    a = ap.parse_args(argv)
    t0 = time.time()
    seed = int(os.environ.get('VERIF_SEED', '0') or 0)
    obs = obligations_fn(a.tier)
    if a.tier == 'quick': obs = [o for o in obs if o.tier == 'quick']
    if a.only: obs = [o for o in obs if any(fnmatch.fnmatch(o.name, p) for p in a.only.split(','))]
    if a.list:
        for o in obs: print(o.name, o.tier, o.timeout, o.mem_gb)
        return 0
    kf_db = load_known_findings()
    # an obligation whose whole input class is a finding of ANOTHER property has nothing to contribute here
    def foreign_only(o):
        ok = [k for k in o.kfs if k in kf_db and kf_db[k].get('status', 'open') == 'open']
        return o.kf_only and ok and not any(kf_db[k].get('property') == prop_id or prop_id in kf_db[k].get('also', []) for k in ok)
    obs = [o for o in obs if not foreign_only(o)]
    if a.replay:
        return replay_main(prop_id, obs, a.replay)
    lock = threading.Lock()
    def log(ob, rec):
        with lock:
            print('[%s] %-40s %-12s %7.1fs  %s' % (prop_id, ob.name, rec['status'], rec['seconds'],
                  ' '.join('%s=%s' % (q['variant'], q['status']) for q in rec['queries'])), flush=True)
    def job(ob):
        try:
            return decide(ob, prop_id, kf_db, log)
        except Exception as ex:
            import traceback
            rec = {'obligation': ob.name, 'status': 'inconclusive', 'queries': [], 'violations': [], 'known_findings': [], 'seconds': 0, 'error': traceback.format_exc()[-2000:]}
            with lock: print('[%s] %s internal error: %s' % (prop_id, ob.name, ex), flush=True)
            return rec
        finally:
            pass
    obs_sorted = sorted(obs, key=lambda o: -o.cost)
    with ThreadPoolExecutor(max_workers=MAX_JOBS * 2) as ex:
        recs = list(ex.map(job, obs_sorted))
    # functions encoded: union over distinct (harness, units) builds
    fe = {}
    seen = set()
    for o in obs_sorted:
        k = (o.harness, tuple(o.units), tuple(o.remove))
        if k in seen: continue
        seen.add(k); fe[o.name] = functions_encoded(o)
    repo_funcs = sorted(set(sum(fe.values(), [])))
    viol = [v for r in recs for v in r['violations']]
    inconc = [r for r in recs if r['status'] == 'inconclusive']
    disc = [r for r in recs if r['status'] == 'discharged']
    kfs_seen = {}
    for r in recs:
        for k in r['known_findings']:
            cur = kfs_seen.get(k['id'])
            if cur is None or (k.get('reproduced') and not cur.get('reproduced')): kfs_seen[k['id']] = k
    for kid, k in sorted(kfs_seen.items()):
        if k.get('reproduced'):
            print('KNOWN-FINDING: property=%s %s %s [solver counterexample, native replay: %s]' % (prop_id, kid, kf_db[kid].get('what', ''), k.get('native')), flush=True)
        elif k.get('reproduced') is False:
            print('note: listed finding %s did not reproduce in this run (property=%s)' % (kid, prop_id), flush=True)
    for v in viol:
        print('VIOLATION property=%s replay=%s' % (prop_id, v['replay']), flush=True)
        print('  failed: %s (%s) native=%s' % (v['description'], v['property'], v['native']), flush=True)
    for r in inconc:
        print('INCONCLUSIVE property=%s obligation=%s: %s' % (prop_id, r['obligation'], '; '.join('%s:%s %s' % (q['variant'], q['status'], q.get('detail', '')[:300]) for q in r['queries']) + r.get('error', '')), flush=True)
    nq = sum(len(r['queries']) for r in recs)
    head, dirty = repo_state()
    wall = time.time() - t0
    if not a.no_evidence and not a.only:
        ev = {'property_id': prop_id, 'tier': a.tier, 'seed': seed, 'level': 'model_checking',
              'coverage': {
                  'evaluations': nq,
                  'distinct_nontrivial': len(disc),
                  'rule': 'one evaluation = one CBMC query (a universal statement over all symbolic inputs inside the stated bounds); an obligation counts as distinct and non-trivial when its query verified AND its vacuity witness (final assert(0) twin, plus cover goals) was reachable',
                  'obligations': len(recs), 'discharged': len(disc), 'inconclusive': len(inconc), 'violated': len([r for r in recs if r['status'] == 'violation']),
                  'checker_cmd': 'cbmc 6.11.0 (goto-cc build of /repo/htp at %s%s); per-query commands are in samples[].queries[].cmd' % (head[:12], '+dirty' if dirty else ''),
                  'trusted_base': meta.get('trusted_base', []) + ['CBMC 6.11 front end, symex, SAT back end', 'goto-cc view of glibc headers', 'CBMC built-in malloc/free/memcpy/memmove/memset/strlen models'],
                  'functions_encoded': repo_funcs,
                  'solver_seconds_total': round(sum(q['seconds'] for r in recs for q in r['queries']), 1),
                  'known_findings_reproduced': sorted(k for k, v in kfs_seen.items() if v.get('reproduced')),
                  'bounds': meta.get('bounds', ''),
                  'outside_claim': meta.get('outside', ''),
                  'samples': recs,
                  'exhaustive': False},
              'assumptions': meta.get('assumptions', []),
              'wall_s': round(wall, 1), 'violations': len(viol)}
        os.makedirs(os.path.join(VERIF, 'evidence'), exist_ok=True)
        tmp = os.path.join(VERIF, 'evidence', prop_id + '.json.tmp')
        json.dump(ev, open(tmp, 'w'), indent=1, default=str)
        os.replace(tmp, os.path.join(VERIF, 'evidence', prop_id + '.json'))
    print('[%s] tier=%s obligations=%d discharged=%d inconclusive=%d violations=%d queries=%d wall=%.0fs' % (prop_id, a.tier, len(recs), len(disc), len(inconc), len(viol), nq, wall), flush=True)
    if viol: return 1
    if inconc: return 2
    return 0

def replay_main(prop_id, obs, path):
    meta = json.load(open(path + '.json'))
    ob = [o for o in obs if o.name == meta['obligation']]
    if not ob:
        print('obligation %s not found in this tier; use --tier thorough' % meta['obligation']); return 2
    verdict, txt = native_replay(ob[0], meta.get('defines', {}), replay_file=path)
    print(txt)
    print('replay verdict:', verdict)
    if verdict.startswith('confirmed'):
        print('VIOLATION property=%s replay=%s' % (prop_id, path)); return 1
    return 0

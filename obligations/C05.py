from verif import Ob
import txobs, streamobs as so
META = {'bounds': 'histories: concrete scripts of 1-3 request/response pairs (methods GET, GET+body, CONNECT; status 200/404/407/101/100), 3-4 rounds; completion functions: one real transaction with every lifecycle field symbolic; state functions: chunks <= 4 bytes from symbolic pre-states',
        'outside': 'line/header parsing states are abstract in the history harness (their fidelity is C02/C03); callbacks return OK in histories (all return codes are symbolic in the completion-function and state-function obligations)',
        'assumptions': ['htp_log stubbed', 'mini-drivers in harness/tx/hist.c replicate the return-code mapping of the real drivers, which is itself checked against contract stubs (C09 drv.*)'],
        'trusted_base': ['harness/tx/hist.c script and mini-drivers', 'lifecycle monitor in the callbacks']}
REQ_CHEAP = [1, 3, 5, 6, 7, 8, 9, 11, 12, 13, 14]
RES_CHEAP = [1, 5, 6, 8, 9, 10]
def obligations(tier):
    obs = txobs.hist_all(tier, 'quick') + txobs.complete_all('quick')
    obs += [o for o in __import__('C09').obligations(tier) if o.name == 'close.sticky']      # no callbacks after a STOP, also not through close
    obs += [so.req_step(s, n=4) for s in REQ_CHEAP] + [so.res_step(s, n=4) for s in RES_CHEAP] + [so.res_step(4, n=4)]
    if tier == 'thorough':
        obs += [so.req_step(s, n=4, tier='thorough') for s in so.REQ_STATES if s not in REQ_CHEAP] + [so.res_step(s, n=(3 if s == 3 else 4), tier='thorough') for s in (2, 3, 7)]
    return obs

from verif import Ob
import txobs
META = {'bounds': 'see obligations', 'outside': 'line/header parsing states are abstract in the history harness (their own fidelity is C02/C03); callbacks return OK in histories',
        'assumptions': ['htp_log stubbed', 'mini-drivers in harness/tx/hist.c replicate the return-code mapping of the real drivers, which is itself checked against contract stubs (C09 drv.*)'], 'trusted_base': ['harness/tx/hist.c script and mini-drivers']}
def obligations(tier):
    obs = txobs.hist_all(tier, 2, 3, 'quick')
    if tier == 'thorough': obs += txobs.hist_all(tier, 3, 4, 'thorough')
    return obs

from verif import Ob
META = {
 'bounds': 'paths / strings of <= 5-8 bytes; every switch of the decoder configuration symbolic; 3-entry best-fit map',
 'outside': 'longer paths; the built-in best-fit table contents (a 3-entry symbolic-free map stands in); iconv transcoding',
 'assumptions': ['reference models are written in the harness (harness/C12/*.c) and validated against the repository DecodingTest / NormalizeUriPath vectors (constant-input queries)', 'CBMC ctype models'],
 'trusted_base': ['reference models in harness/C12'],
}
U = ['htp_util.c', 'bstr.c', 'htp_utf8_decoder.c']
RM = ['htp_log']
MODELS = ['@log_stub.c', '@libc_model.c']
def obligations(tier):
    obs = []
    for n, alpha, t, to in ((5, False, 'quick', 600), (7, True, 'quick', 600), (7, False, 'thorough', 1500), (9, True, 'thorough', 1800)):
        d = {'N': n}
        if alpha: d['ALPHA'] = 1
        obs.append(Ob('dotseg.N%d%s' % (n, '.alpha' if alpha else ''), 'C12/dotseg.c', units=U, models=MODELS, remove=RM, defines=d, unwind=n + 3, tier=t, timeout=to, mem_gb=8,
                      statement='dot-segment removal == RFC 3986 5.2.4 (with the pinned trailing-slash deviation); not longer; no ./.. segment; idempotent',
                      bounds='path <= %d bytes, %s' % (n, 'alphabet {/ . a b}' if alpha else 'all byte values')))
    for n, alpha, t, to in ((6, True, 'quick', 900), (7, True, 'thorough', 1800), (6, False, 'thorough', 1800)):
        d = {'N': n}
        if alpha: d['ALPHA'] = 1
        obs.append(Ob('path.N%d%s' % (n, '.alpha' if alpha else ''), 'C12/path.c', units=U, models=MODELS, remove=RM, defines=d, unwind=n + 3, unwindset=['m_bestfit.0:6', 'decode_u_encoding_path.0:6'], tier=t, timeout=to, mem_gb=10,
                      kfs=['C12-path-raw-nul-flag'],
                      statement='htp_decode_path_inplace == reference model for every decoder switch: output bytes, tx->flags, expected status; never longer',
                      bounds='path <= %d bytes, %s, all 2^17 x 3 switch settings' % (n, 'adversarial alphabet' if alpha else 'all byte values')))
        obs.append(Ob('urldec.N%d%s' % (n, '.alpha' if alpha else ''), 'C12/urldec.c', units=U, models=MODELS, remove=RM, defines=d, unwind=n + 3, unwindset=['m_bestfit.0:6', 'decode_u_encoding_params.0:6'], tier=t, timeout=to, mem_gb=10,
                      statement='htp_urldecode_inplace_ex == reference model in all three contexts: output bytes, flags, expected status',
                      bounds='string <= %d bytes, %s' % (n, 'adversarial alphabet' if alpha else 'all byte values')))
    for mode, nm in ((1, 'decode'), (0, 'validate')):
        for n, t, to in ((4, 'quick', 900), (5, 'thorough', 1800)):
            obs.append(Ob('utf8.%s.N%d' % (nm, n), 'C12/utf8.c', units=U, models=MODELS, remove=RM, defines={'N': n, 'MODE': mode}, unwind=n + 3, unwindset=['m_bestfit.0:6', 'bestfit_codepoint.0:6', 'htp_utf8_decode_path_inplace.0:%d' % (2 * n + 2), 'memcmp.0:2000', 'harness.0:20', 'harness.1:20', 'harness.2:20', 'harness.3:20'], tier=t, timeout=to, mem_gb=10,
                          kfs=(['C12-validate-halffull-range'] if mode == 0 else []),
                          statement='UTF-8 %s of the path == reference decoder: bytes, VALID/INVALID/OVERLONG/HALF_FULL flags' % nm, bounds='path <= %d bytes, all byte values' % n))
    for w in range(18):
        obs.append(Ob('setters.%d' % w, 'C12/setters.c', units=['htp_config.c', 'htp_hooks.c', 'htp_list.c', 'bstr.c'], models=['@libc_model.c'], remove=['htp_log'], defines={'WHICH': w}, unwind=5, unwindset=['memcmp.0:400', 'harness.0:400'], tier='quick', timeout=300, mem_gb=4, cost=3,
                      statement='decoder setter #%d writes exactly its own switch in the named context (all contexts for HTP_DECODER_DEFAULTS) and nothing else' % w,
                      bounds='context 0..3 (incl. the out-of-range value), value -1..500, previous decoder configuration: all bytes symbolic'))
    return obs

from verif import Ob
META = {'bounds': 'bomb test: all 62-bit entity lengths / limits, message lengths up to 2^51, block <= 8192; layers: Content-Encoding lists of <= 3 tokens from {gzip, deflate, lzma, x, none}, layer limit 0..3, lzma limit 0..2',
        'outside': 'byte-exact round trip through inflate / LzmaDec (library code outside /repo resp. input-proportional range-decoder loops) and the glue function htp_gzip_decompressor_decompress (flow, restart, pass-through, "nothing after the bomb verdict"): every formulation ran out of memory, see DESIGN.md C07',
        'assumptions': ['htp_gzip_decompressor_create/destroy are counting stubs', 'hooks return a symbolic OK/ERROR'], 'trusted_base': ['harness/tx/decomp.c']}
U = ['bstr.c', 'htp_util.c', 'htp_utf8_decoder.c']
KN = {'gzip': 0, 'deflate': 1, 'lzma': 2, 'x': 3, 'none': 4}
def layers(toks, spc=0, tier='quick'):
    d = {'FUNC': 2, 'FA_CAP': 32, 'NTOK': len(toks), 'SPC': spc}
    for i in range(3): d['K%d' % i] = KN[toks[i]] if i < len(toks) else 0
    return Ob('decomp.layers.' + '_'.join(toks) + '.sp%d' % spc, 'tx/decomp.c', units=U, models=['@libc_model.c', '@fixed_alloc.c'], remove=['htp_log', 'bstr_alloc', 'bstr_expand', 'htp_req_run_hook_body_data', 'htp_res_run_hook_body_data'], defines=d,
              unwind=24, unwindset=['strlen.0:40', 'memcmp.0:2000', 'harness.0:2000'], tier=tier, timeout=600, mem_gb=8,
              statement='decompressor chain built from Content-Encoding: length <= layer limit, lzma within its limit, stale decompressor released first, nothing when decompression is disabled',
              bounds='Content-Encoding "%s" (SP-after-comma mask %d), layer limit 0..3, lzma limit 0..2, decompression enabled/disabled, stale decompressor present/absent (all symbolic)' % (', '.join(toks), spc))
def obligations(tier):
    obs = [Ob('decomp.bomb_arithmetic', 'tx/decomp.c', units=U, models=['@libc_model.c', '@fixed_alloc.c'], remove=['htp_log', 'bstr_alloc', 'bstr_expand', 'htp_req_run_hook_body_data', 'htp_res_run_hook_body_data'], defines={'FUNC': 1, 'FA_CAP': 32},
              unwind=24, unwindset=['strlen.0:40', 'memcmp.0:2000', 'harness.0:2000'], tier='quick', timeout=600, mem_gb=8,
              statement='the per-block decompressor callbacks report an error iff entity_len > bomb limit and entity_len > 2048 x message_len after adding the block',
              bounds='all 62-bit entity lengths, every non-negative int32 limit, message length < 2^51, block length 0..8192, both directions')]
    combos = [('gzip', 'gzip', 'gzip'), ('gzip', 'deflate'), ('lzma', 'gzip'), ('gzip', 'lzma'), ('lzma', 'lzma'), ('x', 'gzip', 'none'), ('deflate',), ('gzip', 'x', 'lzma')]
    obs += [layers(c, spc) for c in combos for spc in (0, 6)]
    return obs

from verif import Ob
META = {'bounds': 'glue: fresh gzip / deflate / lzma decompressor, chunks of <= 14 symbolic bytes, one or two data calls plus the final call, decoder return-code plans of <= 6 calls (constants per query), consumed / produced amounts of every decoder call symbolic, refused delivery index constant; bomb test: all 62-bit entity lengths / limits, message lengths up to 2^51, block <= 8192; layers: Content-Encoding lists of <= 3 tokens from {gzip, deflate, lzma, x, none}, layer limit 0..3, lzma limit 0..2',
        'outside': 'byte-exact round trip through real inflate / LzmaDec (the content of the output buffer is not modelled); a chain of two real decompressors inside one glue query (recursion bound 1); multi-member streams; more than two data calls; the decompression time limit',
        'assumptions': ['zlib and LzmaDec are contract stubs: a call is offered the unconsumed tail of the current chunk, consumes 0..avail_in, produces 0..avail_out, Z_OK implies progress', 'htp_gzip_decompressor_create/destroy are counting stubs in the layers obligations', 'hooks return a symbolic OK/ERROR'], 'trusted_base': ['harness/tx/decomp.c', 'harness/decomp/glue.c']}
U = ['bstr.c', 'htp_util.c', 'htp_utf8_decoder.c']
KN = {'gzip': 0, 'deflate': 1, 'lzma': 2, 'x': 3, 'none': 4}
def layers(toks, spc=0, tier='quick', failk=None):
    d = {'FUNC': 2, 'FA_CAP': 32, 'NTOK': len(toks), 'SPC': spc}
    if failk is not None: d['FAILK'] = failk
    for i in range(3): d['K%d' % i] = KN[toks[i]] if i < len(toks) else 0
    return Ob('decomp.layers.' + '_'.join(toks) + '.sp%d' % spc + ('' if failk is None else '.fail%d' % failk), 'tx/decomp.c', units=U, models=['@libc_model.c', '@fixed_alloc.c'], remove=['htp_log', 'bstr_alloc', 'bstr_expand', 'htp_req_run_hook_body_data', 'htp_res_run_hook_body_data'], defines=d,
              unwind=24, unwindset=['strlen.0:40', 'memcmp.0:2000', 'harness.0:2000'], tier=tier, timeout=600, mem_gb=8,
              statement='decompressor chain built from Content-Encoding: length <= layer limit, lzma within its limit, stale decompressor released first, nothing when decompression is disabled',
              bounds='Content-Encoding "%s" (SP-after-comma mask %d), layer limit 0..3, lzma limit 0..2, decompression enabled/disabled, stale decompressor present/absent (all symbolic)' % (', '.join(toks), spc))
UG = ['htp_decompressors.c']
def glue(scen, len1, len2=0, tier='quick', timeout=600, mem_gb=10, kfs=(), plan=('E',) * 6, fmt='gzip', cberr=None, n1=None):
    maxstep = len(plan); RC = {'O': 'Z_OK', 'S': 'Z_STREAM_END', 'E': 'Z_DATA_ERROR', 'B': 'Z_BUF_ERROR', 'M': 'VERIF_RC_MEM'}
    return Ob('glue.s%d.L%d_%d.%s%s' % (scen, len1, len2, ''.join(plan), ('' if fmt == 'gzip' else '.deflate') + ('' if cberr is None else '.cberr%d' % cberr) + ('' if n1 is None else '.n%d' % n1)), 'decomp/glue.c', units=UG, models=['@libc_model.c'], remove=[], defines=dict({'SCEN': scen, 'LEN1': len1, 'LEN2': len2, 'RCPLAN': '{' + ','.join(RC[c] for c in plan) + '}'}, **dict({} if fmt == 'gzip' else {'FMT_DEFLATE': 1}, **dict({} if cberr is None else {'CBERR': cberr}, **({} if n1 is None else {'N1': n1, 'STEP_SPLIT': 1})))), unwind=max(len1, len2) + 3, unwindset=['htp_gzip_decompressor_decompress:1', 'memcmp.0:2000'],
              unwind_by=[(r'^harness', 16), (r'^LzmaDec_Allocate', 7), (r'^memcpy', 16), (r'^htp_gzip_decompressor_decompress\.0', 6), (r'^htp_gzip_decompressor_decompress\.1', maxstep + 4), (r'^htp_gzip_decompressor_probe', max(max(len1, len2) - 8, 2))],
              restrict_by=[(r'callback', 'cb')], fp_strict=True, tier=tier, timeout=timeout, mem_gb=mem_gb, kfs=list(kfs), flags=['--unwindset', 'htp_gzip_decompressor_decompress:1'] if False else [],
              statement={1: 'undecodable chunk: after the restarts the whole chunk reaches the callback unchanged (pointer, length)', 2: '.lzma header split over two calls: LzmaDec_Allocate sees the first 5 stream bytes, the decoder is offered the stream from offset 13, nothing skipped or twice', 3: 'flow: produced == delivered after the final call, every delivery <= one buffer, offered input contiguous', 4: 'after the callback refused a block no further byte reaches it', 5: 'a decompressor that gave up passes every later chunk and the final call through'}[scen], bounds='%s, chunks of %d and %d symbolic bytes, decoder plan %s%s%s' % (fmt if scen != 2 else 'lzma', len1, len2, ''.join(plan), '' if cberr is None else ', delivery %d refused' % cberr, '' if n1 is None else ', %d decoder call(s) in the first data call' % n1))
def obligations(tier):
    obs = [Ob('decomp.bomb_arithmetic', 'tx/decomp.c', units=U, models=['@libc_model.c', '@fixed_alloc.c'], remove=['htp_log', 'bstr_alloc', 'bstr_expand', 'htp_req_run_hook_body_data', 'htp_res_run_hook_body_data'], defines={'FUNC': 1, 'FA_CAP': 32},
              unwind=24, unwindset=['strlen.0:40', 'memcmp.0:2000', 'harness.0:2000'], tier='quick', timeout=600, mem_gb=8,
              statement='the per-block decompressor callbacks report an error iff entity_len > bomb limit and entity_len > 2048 x message_len after adding the block',
              bounds='all 62-bit entity lengths, every non-negative int32 limit, message length < 2^51, block length 0..8192, both directions')]
    combos = [('gzip', 'gzip', 'gzip'), ('gzip', 'deflate'), ('lzma', 'gzip'), ('gzip', 'lzma'), ('lzma', 'lzma'), ('x', 'gzip', 'none'), ('deflate',), ('gzip', 'x', 'lzma')]
    obs += [layers(c, spc) for c in combos for spc in (0, 6)]
    # the glue function itself, from a freshly created decompressor, against contract stubs of zlib / LzmaDec with constant return-code plans
    obs += [glue(1, 4), glue(1, 12, kfs=['F12-restart-loses-chunk']), glue(1, 12, fmt='deflate', kfs=['F12-restart-loses-chunk']), glue(5, 3), glue(5, 2, fmt='deflate')]                      # pass-through
    obs += [glue(2, a, 15 - a, plan='OOS') for a in (1, 5, 12)] + [glue(2, 13, 2, plan='OOS', n1=1), glue(2, 14, 1, plan='OOS', n1=1)] + [glue(2, 5, 10, plan='OOO'), glue(2, 7, 8, plan='S'), glue(2, 5, 10, plan='OMEEEE'), glue(2, 5, 10, plan='MEEEEE')]          # .lzma header split
    obs += [glue(3, 3, plan='S'), glue(3, 3, plan='OS'), glue(3, 3, plan='OOS'), glue(3, 3, plan='OOO'), glue(3, 3, 2, plan='OOS', n1=1), glue(3, 3, 2, plan='OOO', n1=1),
            glue(3, 3, plan='OOS', fmt='deflate')]                                                                                  # flow
    obs += [glue(4, 3, 0, plan='OOO', cberr=0), glue(4, 3, 0, plan='OOS', cberr=1), glue(4, 3, 2, plan='OOO', cberr=0, n1=2), glue(4, 3, 2, plan='OOO', cberr=1, n1=1),
            glue(4, 3, 2, plan='OOS', cberr=0, n1=1, fmt='deflate')]                                                                # nothing after a refusal
    return obs

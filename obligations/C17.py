from verif import Ob
META = {
 'bounds': 'list: one/two operations from every ring state of capacity 1..8 (first constant per query); table: <=3 pairs, keys <=2-3 bytes; bstr: haystack <=5-6, needle <=3, all byte values; numbers: <=20 decimal / 17 hex digits, other parsers <=8-10 bytes',
 'outside': 'capacities above 8 (+one growth step), longer strings, allocation failure (C18)',
 'assumptions': ['malloc/realloc never fail (--no-malloc-may-fail); allocation failure is C18', 'CBMC ctype models (units compiled with -D__NO_CTYPE)'],
 'trusted_base': ['reference definitions written in the harness (5-10 lines each)'],
}
def obligations(tier):
    obs = []
    L = ['htp_list.c']
    caps_q = [1, 2, 3, 4]; caps_t = [1, 2, 3, 4, 5, 6, 7, 8]
    for cap in caps_t:
        for first in range(cap):
            t = 'quick' if (cap in caps_q) else 'thorough'
            obs.append(Ob('list.cap%d.first%d' % (cap, first), 'C17/list.c', units=L, defines={'CAP': cap, 'FIRST': first}, unwind=2 * cap + 2, tier=t, timeout=300, mem_gb=3,
                          statement='one of push/pop/shift/get/replace/clear from any ring state equals the abstract sequence operation and preserves the ring invariant',
                          bounds='capacity %d, first=%d, size and elements symbolic' % (cap, first)))
    for cap, first in ((2, 1), (3, 2), (4, 1)) + (((5, 3), (8, 7)) if tier == 'thorough' else ()):
     for size in (cap - 1, cap):
      for o1, o2 in ((0, 0), (0, 1), (0, 2), (1, 0), (2, 0)):
        obs.append(Ob('list2.cap%d.first%d.size%d.ops%d%d' % (cap, first, size, o1, o2), 'C17/list2.c', units=L, defines={'CAP': cap, 'FIRST': first, 'SIZE': size, 'OP1': o1, 'OP2': o2}, unwind=2 * cap + 4, tier='quick' if cap <= 4 else 'thorough', timeout=300, mem_gb=3,
                      statement='two consecutive push/pop/shift operations (incl. across growth) equal the abstract sequence', bounds='capacity %d, first=%d, size=%d, element values symbolic' % (cap, first, size)))
    T = ['htp_table.c', 'htp_list.c', 'bstr.c']
    for k, kl, t in ((2, 2, 'quick'), (3, 2, 'thorough'), (2, 3, 'thorough')):
        obs.append(Ob('table.K%d.KL%d' % (k, kl), 'C17/table.c', units=T, defines={'K': k, 'KL': kl}, unwind=max(2 * k + 3, kl + 2), tier=t, timeout=900, mem_gb=6,
                      statement='table = insertion-ordered multimap; get/get_mem/get_c return the first case-insensitive match (get_c skips NULs of the stored key); key-ownership modes are exclusive',
                      bounds='%d pairs, keys <= %d bytes, all byte values' % (k, kl)))
    for m1 in range(3):
        for m2 in range(3):
            obs.append(Ob('table.mode%d%d' % (m1, m2), 'C17/table_mode.c', units=T, defines={'MODE': m1, 'MODE2': m2}, unwind=4, tier='quick', timeout=120, mem_gb=3,
                          statement='key-ownership modes (copied/adopted/referenced) are exclusive per table', bounds='one pair then one attempt, keys 1 byte'))
    B = ['bstr.c']
    names = {1: 'cmp', 2: 'cmp_norzero', 3: 'begins', 4: 'index', 5: 'index_norzero', 6: 'chr'}
    for f, nm in names.items():
        for h, m, t in ((4, 2, 'quick'), (6, 3, 'thorough')):
            obs.append(Ob('bstr.%s.H%d.M%d' % (nm, h, m), 'C17/bstr_cmp.c', units=B, defines={'FUNC': f, 'H': h, 'M': m}, unwind=h + 3, tier=t, timeout=900, mem_gb=6,
                          statement='bstr %s family equals its mathematical definition' % nm, bounds='haystack <= %d, needle <= %d, all byte values' % (h, m)))
    enames = {1: 'add_mem', 2: 'add_mem_noex', 3: 'dup', 4: 'trim_chop', 5: 'memdup_to_c'}
    for f, nm in enames.items():
        for h, m, sz, t in ((4, 3, 5, 'quick'), (6, 4, 7, 'thorough')):
            obs.append(Ob('bstr.%s.H%d.M%d' % (nm, h, m), 'C17/bstr_edit.c', units=B, defines={'FUNC': f, 'H': h, 'M': m, 'SZ': sz}, unwind=2 * h + 4, tier=t, timeout=600, mem_gb=4,
                          statement='bstr %s equals its definition' % nm, bounds='string <= %d, addition <= %d, allocated size %d' % (h, m, sz)))
    # numbers
    obs.append(Ob('pint.base10.N20', 'C17/pint.c', units=B, defines={'N': 20, 'BASE': 10, 'ALLDIGITS': 1}, unwind=22, solver='kissat', tier='quick', timeout=600, mem_gb=6,
                  statement='bstr_util_mem_to_pint base 10 == value in unsigned __int128 when <= INT64_MAX, -2 otherwise', bounds='1..20 decimal digits (all digit strings around 2^63)'))
    obs.append(Ob('pint.base16.N17', 'C17/pint.c', units=B, defines={'N': 17, 'BASE': 16, 'ALLDIGITS': 1}, unwind=19, solver='kissat', tier='quick', timeout=600, mem_gb=6,
                  statement='bstr_util_mem_to_pint base 16 == value, -2 on overflow', bounds='1..17 hex digits'))
    obs.append(Ob('pint.base10.anybytes.N6', 'C17/pint.c', units=B, defines={'N': 6, 'BASE': 10}, unwind=8, tier='quick', timeout=300, mem_gb=4,
                  statement='mem_to_pint on arbitrary bytes: -1 without a leading digit, stops at first non-digit, lastlen = digits consumed', bounds='<= 6 arbitrary bytes'))
    U = ['htp_util.c', 'bstr.c', 'htp_parsers.c']
    RM = ['htp_log']
    nn = {1: 'pos_int_ws', 2: 'status', 3: 'content_length', 4: 'chunked_length', 5: 'protocol'}
    for f, nm in nn.items():
        for n, t in (((10 if f == 4 else 8) if f in (4, 5) else 6, 'quick'), (10 if f != 4 else 12, 'thorough')):
            if f == 5 and t == 'thorough': continue
            obs.append(Ob('num.%s.N%d' % (nm, n), 'C17/numparse.c', units=U, models=['@log_stub.c', '@libc_model.c'], remove=RM, defines={'FUNC': f, 'N': n}, unwind=n + 3, tier=t, timeout=900, mem_gb=6,
                          solver='kissat' if (t == 'thorough' or f == 4) else None,
                          statement='%s parser returns exactly the mathematical value / documented error' % nm, bounds='<= %d bytes, all byte values' % n))
    for f, nm in ((1, 'pos_int_ws'), (2, 'status'), (3, 'content_length')):
        obs.append(Ob('num.%s.digits.N20' % nm, 'C17/numparse.c', units=U, models=['@log_stub.c', '@libc_model.c'], remove=RM, defines={'FUNC': f, 'N': 20, 'DIGITS': 1}, unwind=23, tier='quick', timeout=900, mem_gb=6, solver='kissat',
                      expect_covers=False, statement='%s parser on long digit strings: exact value or error, never a wrapped value' % nm, bounds='0..20 decimal digits'))
    return obs

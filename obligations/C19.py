from verif import Ob
import txobs
META = {'bounds': 'schedule-independent non-interference obligations: hook objects (1..3 callbacks, all return codes), configuration object bit-identical after the decompression callbacks / response-header processing, static-storage scan of all units',
        'outside': 'real thread schedules (goto-instrument --race-check aborts with an internal invariant violation on this code, a two-thread __CPROVER_ASYNC harness gave no verdict): data races as such are NOT decided; what is decided is that the shared objects are never written, from which independence follows for every schedule by a composition argument',
        'assumptions': ['deterministic sequential code'], 'trusted_base': ['harness/indep/hooks.c', 'static-storage scan in obligations/C19.py']}
def obligations(tier):
    obs = [Ob('hooks.shared_unmodified', 'indep/hooks.c', units=['htp_hooks.c', 'htp_list.c'], models=['@libc_model.c'], unwind=6, unwindset=['memcmp.0:80'], restrict_by=[(r'callback|->fn|\\.fn', 'cb0,cb1,cb2')], tier='quick', timeout=300, mem_gb=6,
              statement='htp_hook_run_all leaves the hook object, its list and every callback record bit-identical, and a second run over the same hook behaves exactly like the first', bounds='1..3 callbacks, every combination of OK/DECLINED/STOP/ERROR')]
    obs += [o for o in __import__('C07').obligations(tier)]          # configuration object bit-identical (memcmp) after the real callbacks / header processing
    obs += [o for o in __import__('C12').obligations(tier) if o.name.startswith('utf8.decode')]      # the shared best-fit map and configuration are not written by the path decoder
    obs.append(Ob('static.scan', 'indep/hooks.c', units=ALLUNITS, static_allow=['bestfit_1252'], unwind=2, tier='quick', timeout=300, mem_gb=6,
                  statement='no object with static storage in the library is writable, except the allow-listed ones which are checked to be const-initialised tables never written by the parsing functions',
                  bounds='all units of /repo/htp; the list of statics is regenerated from the goto symbol table on every run'))
    return obs
ALLUNITS = ['bstr.c', 'bstr_builder.c', 'htp_base64.c', 'htp_config.c', 'htp_connection.c', 'htp_connection_parser.c', 'htp_content_handlers.c', 'htp_cookies.c', 'htp_decompressors.c', 'htp_hooks.c', 'htp_list.c', 'htp_multipart.c',
            'htp_parsers.c', 'htp_php.c', 'htp_request.c', 'htp_request_apache_2_2.c', 'htp_request_generic.c', 'htp_request_parsers.c', 'htp_response.c', 'htp_response_generic.c', 'htp_table.c', 'htp_transaction.c', 'htp_transcoder.c', 'htp_urlencoded.c', 'htp_utf8_decoder.c', 'htp_util.c']

from verif import Ob
import txobs, streamobs as so
META = {'bounds': 'buffering functions: carried <= 3, remainder <= 4 bytes, pending-header length and hard limit any 64-bit value; transaction list <= 3 slots; drivers over stubs',
        'outside': 'N = 10^4 transactions (replaced by the allocation-balance argument, DESIGN.md C10.steady, only partly encoded)', 'assumptions': ['fixed-size malloc/realloc for the carry buffer'], 'trusted_base': ['harness/stream/buffer.c']}
def obligations(tier):
    obs = []
    for side in ('req', 'res'):
        d = {'N': 4, 'B': 3, 'FM_CAP': 9, 'FA_CAP': 9}
        if side == 'res': d['RES'] = 1
        obs.append(Ob('buffer.%s' % side, 'stream/buffer.c', units=so.STREAM_UNITS, models=so.STREAM_MODELS, remove=so.STREAM_RM, defines=d, unwind=8, restrict_by=(so.REQ_FP if side == 'req' else so.RES_FP),
                      tier='quick', timeout=300, mem_gb=6, statement='htp_connp_%s_buffer returns ERROR iff carried + pending header + remainder > field_limit_hard (no wrap-around), else new buffer == old ++ remainder' % side,
                      bounds='carried <= 3 bytes, remainder <= 4 bytes, pending header length and limit: any size_t value'))
    for side in ('req', 'res'):
        d = {'FM_CAP': 16}
        if side == 'res': d['RES'] = 1
        obs.append(Ob('foldcap.%s' % side, 'stream/foldcap.c', units=so.STREAM_UNITS, models=['@libc_model.c'], remove=so.STREAM_RM, defines=d, unwind=27, restrict_by=(so.REQ_FP if side == 'req' else so.RES_FP), 
                      tier='quick', timeout=300, mem_gb=8, statement='a pending folded header at or above HTP_MAX_HEADER_FOLDED is not grown by further continuation lines, whatever the transaction flags; below it grows by exactly the line',
                      bounds='cap value replaced by the stand-in 8 (the real value 102400 is asserted), pending header length cap-4 .. cap+4 symbolic, two continuation lines, all 2^64 tx flag values'))
    c9 = __import__('C09').obligations(tier)
    obs += [o for o in c9 if o.name.startswith('drv.')]
    obs += [o for o in txobs.pairing('quick') if 'tx_create' in o.name or 'tx_freed' in o.name]
    obs += [so.res_step(1)]      # an unmatched response gets its placeholder transaction through htp_connp_tx_create (max_tx), never directly
    obs += [o for o in __import__('C07').obligations(tier) if '.layers.' in o.name]     # steady state: the previous message's decompressor is released
    return obs

from verif import Ob
META = {'bounds': 'strings <= 3-5 bytes (all byte values, or the property alphabet), every single cut position as its own query, plus-decoding and invalid-encoding handling symbolic',
        'outside': 'longer strings; more than one cut per query; the query-string content handler and the header-driven registration (htp_content_handlers.c; the body handler is handler.body_params)',
        'assumptions': ['bstr_builder and htp_table replaced by abstract flat models (table verified against it in C17)', 'fixed-capacity bstr_alloc'], 'trusted_base': ['builder_model.c', 'table_model.c', 'reference splitter in harness/urlenc/split.c']}
U = ['htp_urlencoded.c', 'htp_util.c', 'bstr.c', 'htp_utf8_decoder.c']
def ob(n, cut, decode, alpha, tier, timeout=900, mem_gb=10, cut2=None, realbb=False):
    d = {'N': n, 'CUT': cut, 'DECODE': decode, 'FA_CAP': n + 2, 'BB_CAP': n + 2, 'TM_MAXP': n + 1}
    if cut2: d['CUT2'] = cut2; d['FIELD3'] = 1
    if realbb: d['FIELD3_CONCRETE'] = 1
    if alpha: d['ALPHA'] = 1
    units = U + (['bstr_builder.c', 'htp_list.c'] if realbb else [])
    models = ['@libc_model.c', '@fixed_alloc.c', '@table_model.c'] + ([] if realbb else ['@builder_model.c'])
    return Ob('urlenp.N%d.cut%d%s.%s%s%s' % (n, cut, ('+%d' % cut2 if cut2 else ''), 'dec' if decode else 'raw', '.alpha' if alpha else '', '.realbuilder' if realbb else ''), 'urlenc/split.c', units=units, models=models,
              remove=['htp_log', 'bstr_alloc', 'bstr_expand'], defines=d, unwind=n + 4, unwindset=['strlen.0:4'], tier=tier, timeout=timeout, mem_gb=mem_gb,
              statement='urlencoded pairs == reference split rule (raw) and whole == split at cut %d%s' % (cut, ', with percent/plus decoding of each finished field' if decode else ''),
              bounds='string <= %d bytes, %s, cut %d' % (n, 'alphabet {a = & %% + 1 NUL}' if alpha else 'all byte values', cut))
def obligations(tier):
    obs = []
    for cut in range(0, 3): obs.append(ob(3, cut, 0, False, 'quick'))
    for cut in range(0, 4): obs.append(ob(4, cut, 0, True, 'quick'))
    obs.append(ob(4, 1, 0, False, 'quick', cut2=2)); obs.append(ob(4, 1, 0, False, 'quick', cut2=2, realbb=True, mem_gb=16))     # one field spread over three chunks
    obs += [o for o in __import__('C12').obligations(tier) if o.name.startswith('urldec.')]   # percent/plus decoding of each finished field
    obs.append(Ob('handler.body_params', 'urlenc/handler.c', units=['htp_content_handlers.c', 'bstr.c'], models=['@libc_model.c', '@table_model.c', '@fixed_alloc.c'], remove=['bstr_alloc', 'bstr_expand'], defines={'TM_MAXP': 4}, unwind=6, tier='quick', timeout=300, mem_gb=4,
                  statement='body handler: data forwarded untouched; at end of body the parser is finalised exactly once whatever its buffers hold, every pair becomes a body parameter in order, the table is handed over once', bounds='0..2 finished pairs plus an optional pending field, parser buffer state symbolic'))
    if tier == 'thorough':
        for cut in range(0, 4): obs.append(ob(4, cut, 0, False, 'thorough', 2400, 16))
        for cut in range(0, 5): obs.append(ob(5, cut, 1, True, 'thorough', 3000, 20))
        obs.append(ob(3, 1, 1, True, 'thorough', 2400, 16))
    return obs

from verif import Ob
import hdrobs
META = {'bounds': 'generated lines: names <= 3, values <= 4 bytes, methods <= 3, URIs <= 4 bytes', 'outside': 'long fields; complete messages through the drivers (covered piecewise by C03/C06); htp_transcoder.c',
        'assumptions': ['htp_log stubbed'], 'trusted_base': ['generators in harness/hdr/*.c']}
def obligations(tier):
    import streamobs as so
    obs = [hdrobs.parse_one(f) for f in (1, 2, 3, 4)] + [hdrobs.auth(1), hdrobs.auth(2)]
    # repeated fields combined, case-insensitive lookup: header processor (C11 scenario two_cl) + the table itself (C17)
    obs += [hdrobs.smuggle(2, 0, 0)] + [o for o in __import__('C17').obligations(tier) if o.name.startswith('table.')]
    # folded lines joined, across chunk boundaries (C03 merge lemma on the folded shape)
    obs += so.split('req', 1, 'x:x\r\n x\r\n\r\n', cuts=(4, 5, 6))
    # what the request reported is not touched by the response side: an interim 100 forgets the interim RESPONSE fields only
    obs += [so.res_step(4)]
    return obs

from verif import Ob
import streamobs as so
META = {
 'bounds': 'chunks <= 4-5 bytes, carry buffer <= 2, pending header <= 2, one state-function call / one driver call per query',
 'outside': 'the real drivers over the real header states in one query (no verdict within reach, DESIGN.md section 1); composition over long histories is an informal induction over the step obligations',
 'assumptions': ['layer B (htp_tx_state_*, body dispatch) and layer C (line/header parsers) are contract stubs returning any of OK/ERROR/STOP',
                 'fixed-capacity bstr_alloc and fixed-size malloc/realloc for in_buf/out_buf', 'htp_log body replaced by a counter'],
 'trusted_base': ['INV_A pre-state construction in harness/stream/*_step.c', 'contract stubs'],
}
def obligations(tier):
    obs = []
    for s in so.REQ_STATES:
        obs.append(so.req_step(s, n=4, tier='quick'))
    for side, unit, idle in (('req', 'htp_request.c', 'htp_connp_REQ_IDLE'), ('res', 'htp_response.c', 'htp_connp_RES_IDLE')):
        obs.append(Ob('drv.%s.N4' % side, 'stream/drv_%s.c' % side, units=[unit, 'htp_connection.c'], models=['@libc_model.c'], remove=['htp_log', idle, 'htp_hook_run_all'],
                      defines={'N': 4}, unwind=6, restrict_by=[(r'(in|out)_state', 'stub_state,' + idle)], tier='quick', timeout=300, mem_gb=6,
                      statement='real htp_connp_%s_data over a contract-stub state: documented return codes, DATA => consumed == len, DATA_OTHER => consumed < len, byte counter += len, ERROR/STOP sticky with zero state-function and hook calls, TUNNEL short-circuit, zero-length refusal without side effects, gap handling' % side,
                      bounds='chunk <= 4 bytes, <= 3 state-function calls per driver call, all 8 stream states on entry, all stub return codes'))
    obs.append(Ob('close.sticky', 'stream/close.c', units=['htp_connection_parser.c'], remove=['htp_log'], unwind=2, tier='quick', timeout=120, mem_gb=3,
                  statement='htp_connp_close / htp_connp_req_close keep ERROR and STOP; all other states become CLOSED before the finalisation calls', bounds='all 8x8 status pairs'))
    for s in so.RES_STATES:
        obs.append(so.res_step(s, n=(3 if s == 3 else 4), tier='quick', kfs=(['C09-stop-overwritten'] if s == 4 else [])))
    # progress: the response side hands over (DATA_OTHER) only to a request side that waits on THIS transaction, otherwise both directions can wait on each other for ever
    import txobs
    obs += [o for o in txobs.complete_all('quick') if 'response_complete_ex' in o.name]
    return obs

from verif import Ob
import streamobs as so
META = {
 'bounds': 'chunks <= 4-5 bytes, carry buffer <= 2, pending header <= 2, one state-function call / one driver call per query',
 'outside': 'the real drivers over the real header states in one query (no verdict within reach, DESIGN.md section 1); composition over long histories is an informal induction over the step obligations',
 'assumptions': ['layer B (htp_tx_state_*, body dispatch) and layer C (line/header parsers) are contract stubs returning any of OK/ERROR/STOP',
                 'fixed-capacity bstr_alloc and fixed-size malloc/realloc for in_buf/out_buf', 'htp_log body replaced by a counter'],
 'trusted_base': ['INV_A pre-state construction in harness/stream/*_step.c', 'contract stubs'],
}
def obligations(tier):
    obs = []
    for s in so.REQ_STATES:
        obs.append(so.req_step(s, n=4, tier='quick'))
    return obs

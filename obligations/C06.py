from verif import Ob
import txobs, streamobs as so
META = {'bounds': 'body state functions: chunks <= 4-5 bytes from symbolic pre-states; generated chunked bodies with one chunk of 1..3 bytes + terminator, every cut; accounting: <= 3 data calls of <= 4 bytes',
        'outside': 'content codings (C07); bodies longer than the bounds; multi-chunk chunked bodies beyond one data chunk + terminator',
        'assumptions': ['layer B stubs record the bytes handed to htp_tx_*_process_body_data_ex', 'fixed-size malloc/realloc for in_buf/out_buf'], 'trusted_base': ['harness generators']}
def obligations(tier):
    obs = [so.req_step(s, n=5) for s in (9, 11, 12, 13)] + [so.res_step(s, n=5) for s in (5, 6, 8, 9, 10)]
    obs += [so.res_step(4, n=4)] + [o for o in __import__('C17').obligations(tier) if o.name.startswith('num.chunked_length') or o.name.startswith('num.content_length')]
    obs += [__import__('hdrobs').smuggle(3)]       # framing decision: every spelling of a chunked Transfer-Encoding selects the chunked body states
    obs += so.chunked('req', (1, 2)) + so.chunked('res', (1, 2))
    if tier == 'thorough': obs += so.chunked('req', (3,), 'thorough') + so.chunked('res', (3,), 'thorough')
    obs += [o for o in txobs.complete_all('quick') if 'finalize' not in o.name] + [txobs.acct()]
    if tier == 'thorough':
        obs += [so.req_step(10, n=5, tier='thorough'), so.res_step(7, n=5, tier='thorough')]
    return obs

from verif import Ob
HDR_UNITS = ['htp_request_generic.c', 'htp_response_generic.c', 'htp_util.c', 'bstr.c', 'htp_table.c', 'htp_list.c', 'htp_parsers.c', 'htp_transaction.c', 'htp_utf8_decoder.c']
HDR_UNITS_TM = [u for u in HDR_UNITS if u not in ('htp_table.c', 'htp_list.c')]
HDR_RM = ['htp_log', 'bstr_alloc', 'bstr_expand']
HDR_MODELS = ['@libc_model.c', '@fixed_alloc.c']
def parse_one(func, nl=3, vl=4, tier='quick', timeout=600, mem_gb=8):
    nm = {1: 'req_header', 2: 'res_header', 3: 'request_line', 4: 'status_line'}[func]
    return Ob('parse.%s.NL%d.VL%d' % (nm, nl, vl), 'hdr/parse_one.c', units=HDR_UNITS, models=HDR_MODELS, remove=HDR_RM, defines={'FUNC': func, 'NL': nl, 'VL': vl, 'FA_CAP': 24}, unwind=nl + vl + 12,
              unwindset=['strlen.0:40', 'htp_convert_method_to_number.0:45'], tier=tier, timeout=timeout, mem_gb=mem_gb,
              statement='a generated %s (symbolic terminals) is parsed into exactly the generated fields' % nm.replace('_', ' '), bounds='name <= %d, value <= %d bytes, OWS 0..2 SP/HT, optional LF / CRLF' % (nl, vl))
def smuggle(scen, withx=0, xpos=0, order=0, urih=0, hh=0, tier='quick', timeout=900, mem_gb=7, **kw):
    nm = {1: 'te_and_cl', 2: 'two_cl', 3: 'te_alone', 4: 'cl_alone', 5: 'host', 6: 'folded_cl'}[scen]
    d = {'SCEN': scen, 'FA_CAP': 40}
    if scen in (1, 2): d.update({'WITHX': withx, 'XPOS': xpos, 'ORDER': order}); nm += ('.x%d' % xpos if withx else '.nox') + ('.o%d' % order if scen == 1 else '')
    if scen == 5: d.update({'URIH': urih, 'HH': hh}); nm += '.uri%d.hdr%d' % (urih, hh)
    return Ob('smuggle.%s' % nm, 'hdr/smuggle.c', units=HDR_UNITS_TM, models=HDR_MODELS + ['@table_model.c'], remove=HDR_RM + ['htp_hook_run_all'], defines=d, unwind=20, flags=['--no-standard-checks'],
              unwind_by=[(r'^htp_table_get', 5), (r'^htp_table_', 6), (r'^htp_list_', 10), (r'^bstr_util_cmp_mem', 20), (r'^bstr_util_mem_index', 20), (r'^bstr_begins|^bstr_to_lower', 20), (r'^htp_parse_request_header_generic', 40), (r'^htp_chomp', 4),
                         (r'^htp_parse_content_length|^bstr_util_mem_to_pint', 8), (r'^strlen', 40), (r'^htp_header_has_token', 40), (r'^put_name', 20), (r'^memchr|^bstr_util_mem_trim|^htp_parse_hostport|^htp_validate_hostname', 12)],
              tier=tier, timeout=timeout, mem_gb=mem_gb,
              statement='trigger %s applied to a generated request header block: indicator flags and framing decision exactly as demanded, for every spelling' % nm,
              bounds='all letter-case variants of the field names and of "chunked", 0..2 SP/HT around values, value formats d / 0d / x / empty, field order, irrelevant header %s, protocol 0.9/1.0/1.1; functional assertions only (--no-standard-checks; memory safety of the same functions is C01)' % ('at position %d' % xpos if withx else 'absent or symbolic'), **kw)

def auth(func, tier='quick', timeout=900, mem_gb=10):
    nm = {1: 'basic', 2: 'digest'}[func]
    return Ob('auth.%s' % nm, 'hdr/auth.c', units=HDR_UNITS, models=HDR_MODELS, remove=HDR_RM, defines={'FUNC': func, 'UL': 2, 'PL': 3, 'FA_CAP': 40}, unwind=20,
              unwind_by=[(r'^strlen', 40), (r'^harness', 42), (r'^b64enc', 4), (r'^htp_base64_decode', 14), (r'^bstr_util_mem_index', 12), (r'^htp_extract_quoted', 12), (r'^eqb', 9)],
              tier=tier, timeout=timeout, mem_gb=mem_gb, statement='%s credentials reported exactly as on the wire (user / password split at the FIRST colon)' % nm, bounds='user <= 2-3 bytes, password <= 3 bytes (all byte values incl. colons); base64 decoder is a contract stub')

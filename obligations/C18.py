from verif import Ob
META = {'bounds': 'one allocation failure per run at any ordinal (symbolic), per unit, on small concrete inputs', 'outside': 'two or more failures; whole-stream runs through the drivers; leaks (not demanded by C18)',
        'assumptions': ['malloc/calloc/realloc/strdup of the real units are wrapped by harness/common/fault_alloc.h (force-included)', 'hooks are harness callbacks'], 'trusted_base': ['fault_alloc.h']}
BASE = ['htp_list.c', 'htp_table.c', 'bstr.c', 'htp_hooks.c']
UNITS = {1: ['htp_connection.c'] + BASE + ['htp_transaction.c', 'htp_connection_parser.c', 'htp_util.c', 'htp_utf8_decoder.c', 'htp_config.c'],
         2: ['htp_connection.c', 'htp_connection_parser.c', 'htp_transaction.c', 'htp_util.c', 'htp_utf8_decoder.c', 'htp_config.c'] + BASE,
         3: BASE, 4: ['htp_config.c'] + BASE, 5: BASE + ['bstr_builder.c'],
         6: ['htp_connection.c', 'htp_connection_parser.c', 'htp_transaction.c', 'htp_util.c', 'htp_utf8_decoder.c', 'htp_config.c', 'htp_request_generic.c'] + BASE,
         7: ['htp_parsers.c', 'htp_util.c', 'htp_utf8_decoder.c', 'htp_base64.c'] + BASE,
         8: ['htp_connection.c', 'htp_connection_parser.c', 'htp_transaction.c', 'htp_util.c', 'htp_utf8_decoder.c', 'htp_config.c'] + BASE,
         10: ['htp_connection.c', 'htp_connection_parser.c', 'htp_transaction.c', 'htp_util.c', 'htp_utf8_decoder.c', 'htp_config.c', 'htp_response_generic.c'] + BASE,
         9: ['htp_urlencoded.c', 'htp_util.c', 'htp_utf8_decoder.c', 'bstr_builder.c'] + BASE}
UNW = {1: 4, 2: 6, 3: 6, 4: 8, 5: 8, 6: 10, 7: 12, 8: 30, 9: 10, 10: 12}
MAXALLOC = {1: 8, 2: 12, 3: 8, 4: 10, 5: 14, 6: 24, 7: 6, 8: 26, 9: 20, 10: 24}
NAMES = {1: 'conn', 2: 'connp_tx', 3: 'hooks', 4: 'config_copy', 5: 'containers', 6: 'req_headers', 7: 'auth', 8: 'request_line_uri', 9: 'urlencoded', 10: 'res_headers'}
def ob(func, k, kind=None, tier='quick', **kw):
    d = {'FUNC': func, 'MAXALLOC': MAXALLOC[func], 'FAILAT': k}
    nm = NAMES[func]
    if kind is not None: d['KIND'] = kind; nm += '.%s' % ('digest' if kind else 'basic')
    nm += '.k%d' % k
    return Ob('fault.' + nm, 'fault/units.c', units=UNITS[func], unit_includes=['@fault_alloc.h'], models=['@libc_model.c'], remove=['htp_log'], defines=d, unwind=UNW.get(func, 8), unwindset=['strlen.0:40'],
              restrict_by=[(r'callback|->fn|\\.fn', 'cb')], object_bits=11, tier=tier, timeout=300, mem_gb=4, cost=2,
              statement='%s: with the k-th allocation failing the unit neither double-frees, uses freed memory nor dereferences NULL, during use after the error and during teardown' % nm,
              bounds='allocation ordinal %d fails (one query per ordinal 0..%d, which covers every allocation of the fault-free run plus "no failure": the symbolic-ordinal query runs out of memory); small concrete inputs' % (k, MAXALLOC[func]), **kw)
def obligations(tier):
    obs = []
    for f in (1, 2, 3, 5, 6, 8, 9, 10):
        obs += [ob(f, k) for k in range(MAXALLOC[f] + 1)]
    for kind in (0, 1): obs += [ob(7, k, kind) for k in range(MAXALLOC[7] + 1)]
    # configuration copy: ordinals 1..8 hit the listed finding (kf_only), the others must verify
    for k in range(MAXALLOC[4] + 1):
        hit = 1 <= k <= 8
        obs.append(ob(4, k, kfs=(['C18-config-copy-shared-hooks'] if hit else []), kf_only=hit))
    # decompressor chain: the k-th layer cannot be created (allocation failure inside htp_gzip_decompressor_create): nothing destroyed stays reachable
    c7 = __import__('C07')
    for toks, ks in ((('gzip', 'deflate'), (0, 1)), (('gzip', 'gzip', 'gzip'), (0, 1, 2)), (('lzma', 'gzip'), (1,))):
        for k in ks:
            o = c7.layers(toks, 0, failk=k); o.expect_covers = False; obs.append(o)
    return obs

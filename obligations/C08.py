from verif import Ob
import streamobs as so
META = {'bounds': 'pump families prefix . unit^k . suffix with a symbolic unit byte, k = K, 2K, 3K (K = 4), delivered in one chunk; caps by unwinding assertion',
        'outside': 'the asymptotic statement itself (a bounded run cannot observe an asymptote): replaced by "the second difference of the cost over k is bounded"; 1-byte-chunk delivery; the known super-linear constructs of 0.5.47 (per-header linear table lookup, data_probe_chunk_length rescans) are not exercised by these pumps and are NOT claimed',
        'assumptions': ['cost = loop iterations of the real code counted by a macro-injected meter (harness/common/verif_cost.h), library calls such as memcpy count 0'], 'trusted_base': ['verif_cost.h']}
NAMES = {1: 'RES_CHUNKED_LENGTH', 2: 'index_of_nocasenorzero', 3: 'response_headers_content_encoding', 4: 'token_and_length_parsers'}
def pump(t, k=4, slack=8, tier='quick', unitset=False, unitc=None):
    d = {'TARGET': t, 'K': k, 'SLACK': slack, 'FM_CAP': 3 * k + 4, 'FA_CAP': 3 * k + 24}
    if unitc is not None: d['UNITC'] = unitc
    if unitset: d['UNITSET'] = 1
    units = {1: so.STREAM_UNITS, 2: ['bstr.c'], 3: ['bstr.c', 'htp_util.c', 'htp_utf8_decoder.c'], 4: ['bstr.c', 'htp_util.c', 'htp_utf8_decoder.c']}[t]
    rm = ['htp_log'] + (['bstr_alloc', 'bstr_expand'] if t in (1, 3) else []) + (['htp_req_run_hook_body_data', 'htp_res_run_hook_body_data'] if t == 3 else [])
    models = ['@libc_model.c'] + (['@fixed_alloc.c'] if t in (1, 3) else [])
    return Ob('pump.%s.K%d%s' % (NAMES[t], k, ('.u%d' % unitc if unitc is not None else '')), 'cost/pump.c', units=units, unit_includes=['@verif_cost.h'], models=models, remove=rm, defines=d, unwind=3 * k + 24, unwindset=['strlen.0:40'],
              restrict_by=so.RES_FP if t == 1 else [], tier=tier, timeout=900, mem_gb=10,
              statement='%s: cost(3K) - cost(2K) <= cost(2K) - cost(K) + %d for every unit byte (marginal cost does not grow)' % (NAMES[t], slack),
              bounds='unit byte symbolic%s, K = %d, one chunk' % (' over {SP , LF CR NUL a HT ; 0}' if unitset else ' (all 256 values)', k))
def obligations(tier):
    obs = [pump(1, k=4, unitc=u) for u in (10, 13, 32, 97, 48, 59)] + [pump(2), pump(4)] + [pump(3, unitc=u) for u in (32, 44, 9)]
    # caps (unwinding assertion = the cap): HTTP/0.9 probing in REQ_PROTOCOL, folded-header cap, buffering limit
    obs += [so.req_step(3, n=5)] + [o for o in __import__('C10').obligations(tier) if o.name.startswith('foldcap') or o.name.startswith('buffer')]
    return obs

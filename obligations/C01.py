from verif import Ob
import streamobs as so, txobs
META = {'bounds': 'per unit: heap buffers of exactly 0..5 bytes (one query per length) with all bytes and all configuration switches symbolic; every stream state function on an exact-size 4-byte chunk from a symbolic pre-state with all stub return codes; transaction-layer histories with auto-destroy; teardown under --memory-leak-check',
        'outside': 'arbitrary-length histories through the public drivers with real lower layers in one query (no verdict at 4 bytes); zlib/LZMA internals; iconv transcoding; multipart matcher',
        'assumptions': ['layer stubs as in C09', 'real allocator in the unit obligations; fixed-capacity models in the state obligations'], 'trusted_base': ['CBMC memory model']}
U = ['htp_util.c', 'bstr.c', 'htp_utf8_decoder.c', 'htp_request_generic.c', 'htp_response_generic.c', 'htp_parsers.c', 'htp_table.c', 'htp_list.c']
NAMES = {1: 'decode_path', 2: 'urldecode', 3: 'utf8_decode', 4: 'utf8_validate', 5: 'normalize_path', 6: 'header_parsers', 7: 'response_line', 8: 'request_line', 9: 'hostport_uri', 10: 'numbers_tokens', 11: 'line_helpers', 12: 'quoted_method'}
def exact(func, ln, tier='quick'):
    return Ob('exact.%s.len%d' % (NAMES[func], ln), 'mem/exact.c', units=U, models=['@libc_model.c'], remove=['htp_log'], defines={'FUNC': func, 'LEN': ln}, unwind=ln + 4,
              unwindset=['strlen.0:40', 'htp_convert_method_to_number.0:45', 'bestfit_codepoint.0:6', 'decode_u_encoding_path.0:6', 'decode_u_encoding_params.0:6', 'htp_utf8_decode_path_inplace.0:%d' % (2 * ln + 2), 'htp_header_has_token.0:12'],
              tier=tier, timeout=600, mem_gb=6, cost=10, unwind_violation=True, statement='%s on an exact-size buffer: no out-of-bounds access, no invalid free, output never longer' % NAMES[func],
              bounds='buffer of exactly %d bytes (all values), every decoder switch / personality symbolic' % ln)
def obligations(tier):
    obs = []
    for f in [x for x in NAMES if x != 9]:      # hostport/uri: symbolic-size allocations do not fit here; C13 runs them with all memory checks on a fixed-capacity allocator
        for ln in ((0, 1, 3, 4) if tier == 'quick' else range(0, 7)):
            obs.append(exact(f, ln, 'quick' if ln in (0, 1, 3, 4) else 'thorough'))
    # every stream state function on an exact-size chunk (pointer/len pairs handed out are checked in the stubs)
    cheap_req = [1, 3, 5, 6, 7, 8, 9, 11, 12, 13, 14]; cheap_res = [1, 5, 6, 8, 9, 10]
    obs += [so.req_step(s, n=4, exact=True) for s in cheap_req] + [so.res_step(s, n=4, exact=True) for s in cheap_res]
    obs += [so.res_step(7, n=4, exact=True)]
    if tier == 'thorough':
        obs += [so.req_step(s, n=4, exact=True, tier='thorough') for s in (2, 4, 10)] + [so.res_step(s, n=(3 if s == 3 else 4), exact=True, tier='thorough') for s in (2, 3, 4)]
    # callbacks destroying completed transactions (auto-destroy) in the bounded histories, completion functions, list bookkeeping
    obs += [o for o in __import__('C13').obligations(tier) if o.tier == 'quick']
    obs += [o for o in txobs.hist_all(tier, 'quick') if '.ad1.' in o.name] + [o for o in txobs.complete_all('quick') if o.name.endswith('ad1')] + txobs.pairing('quick')
    # multipart: every chunk / piece is an exact-size heap object freed after the call (read past the chunk, kept pointers), and the
    # parts-to-parameters hand-over happens once (a second finalisation would add the same strings again: double free at teardown)
    obs += [o for o in __import__('C14').obligations('quick') if o.name.startswith(('param.', 'part.v0.hc0', 'part.v2.hc45', 'match.s0.ND1.chunks2', 'match.s3.ND1.chunks2'))]
    return obs

from verif import Ob
TX_UNITS = ['htp_transaction.c', 'htp_hooks.c', 'htp_list.c', 'htp_table.c', 'bstr.c', 'htp_connection.c', 'htp_connection_parser.c', 'htp_config.c', 'htp_util.c', 'htp_request.c', 'htp_response.c', 'htp_utf8_decoder.c']
TX_RM = ['htp_log']
CBS = 'cb_req_start,cb_req_line,cb_req_headers,cb_req_body,cb_req_trailer,cb_req_complete,cb_res_start,cb_res_line,cb_res_headers,cb_res_body,cb_res_complete,cb_txc'
def hist(script, th=0, ad=0, rounds=3, tier='quick', timeout=600, mem_gb=8, **kw):
    """script: list of (method, body, status)"""
    nreq = len(script)
    d = {'NREQ': nreq, 'ROUNDS': rounds, 'TH': th, 'AD': ad}
    for k, (m, b, st) in enumerate(script):
        d['M%d' % k] = m; d['S%d' % k] = st
        if k == 0: d['B0'] = b
    nm = 'hist.' + '_'.join('%s%s%d' % (m.replace('HTP_M_', ''), '+b' if b else '', st) for m, b, st in script) + ('.http' if th else '') + '.ad%d.R%d' % (ad, rounds)
    f4 = any(m == 'HTP_M_CONNECT' and (st == 404 or (st == 200 and th)) for m, b, st in script)
    k407 = any(m == 'HTP_M_CONNECT' and st == 407 for m, b, st in script[:-1])
    return Ob(nm, 'tx/hist.c', units=TX_UNITS, models=['@libc_model.c'], remove=TX_RM, defines=d,
              unwind=9 * nreq + 6, unwindset=['strlen.0:40', 'memcmp.0:40'], restrict_by=[(r'callback|->fn|\.fn', CBS)], object_bits=11,
              tier=tier, timeout=timeout, mem_gb=mem_gb, kfs=(['F4-double-complete'] if f4 else []) + (['C04-407-no-yield'] if k407 else []), kf_only=k407,
              statement='lifecycle monitor over a bounded history: callbacks in protocol order, progress monotone, REQUEST/RESPONSE/TRANSACTION_COMPLETE at most once, TRANSACTION_COMPLETE only when both sides complete and nothing after it, completion in arrival order, request i paired with response i, DATA_OTHER hand-overs make progress, tunnel mode produces nothing',
              bounds='script %s%s; tx_auto_destroy=%d; %d rounds of (request side runs until it yields, response side runs until it yields)' % (script, ', tunnel payload is HTTP' if th else '', ad, rounds), **kw)

G = 'HTP_M_GET'; CN = 'HTP_M_CONNECT'
def hist_all(tier, t='quick', which='all'):
    obs = []
    for ad in (0, 1):
        for s0 in (200, 404, 407, 101, 100):
            if which == 'all':
                obs.append(hist([(G, 0, s0), (G, 0, 200)], 0, ad, 3, tier=t))
                obs.append(hist([(G, 1, s0), (G, 0, 200)], 0, ad, 3, tier=t))
            obs.append(hist([(CN, 0, s0), (G, 0, 200)], 0, ad, 3, tier=t))
        obs.append(hist([(CN, 0, 200), (G, 0, 200)], 1, ad, 3, tier=t))
        obs.append(hist([(CN, 0, 407)], 0, ad, 3, tier=t))
        # a request pipelined ahead of a CONNECT, and one behind it
        for s1 in (200, 404):
            obs.append(hist([(G, 0, 200), (CN, 0, s1), (G, 0, 200)], 0, ad, 4, tier=t))
    return obs

CCBS = 'cb_reqc,cb_resc,cb_txc,cb_reqbody,cb_resbody'
def complete_all(tier='quick'):
    obs = []
    for f, nm in ((1, 'response_complete_ex'), (2, 'request_complete'), (3, 'finalize')):
        for ad in (0, 1):
            obs.append(Ob('complete.%s.ad%d' % (nm, ad), 'tx/complete.c', units=TX_UNITS, models=['@libc_model.c'], remove=TX_RM, defines={'FUNC': f, 'AD': ad}, unwind=8, unwindset=['strlen.0:40'],
                          restrict_by=[(r'callback|->fn|\\.fn', CCBS)], object_bits=11, tier=tier, timeout=600, mem_gb=8,
                          statement='%s from any lifecycle state: *_COMPLETE hooks at most once, end-of-body marker before completion, TRANSACTION_COMPLETE iff both sides complete, DATA_OTHER hand-over iff the request side waits on this transaction (or the one-shot refused-CONNECT flag)' % nm,
                          bounds='one real transaction; request/response progress, transfer codings, in_tx in {this, other, NULL}, in_status, yield flag, hybrid flag and the return code of each hook symbolic; tx_auto_destroy=%d' % ad))
    return obs

def acct(tier='quick'):
    return Ob('acct.body_data', 'tx/acct.c', units=TX_UNITS, models=['@libc_model.c'], remove=TX_RM, unwind=6, unwindset=['strlen.0:40'], restrict_by=[(r'callback|->fn|\\.fn', 'cb_req,cb_res')], object_bits=11, tier=tier, timeout=600, mem_gb=8,
              statement='entity length == bytes delivered to body callbacks, response message length == bytes taken, end-of-body marker once and last, every pointer/len handed out lies inside the caller buffer',
              bounds='3 data calls (direction, offset and length <= 4 symbolic) + the two end-of-body calls, no content coding')

def pairing(tier='quick'):
    obs = []
    for f, nm in ((1, 'tx_create'), (2, 'tx_freed'), (3, 'RES_IDLE')):
        for size in (0, 1, 2, 3):
            obs.append(Ob('pair.%s.size%d' % (nm, size), 'tx/pairing.c', units=TX_UNITS, models=['@libc_model.c'], remove=TX_RM + ['htp_hook_run_all'], defines={'FUNC': f, 'SIZE': size, 'MAXL': 3}, unwind=8, unwindset=['strlen.0:40'],
                          object_bits=11, tier=tier, timeout=600, mem_gb=8,
                          statement={1: 'htp_connp_tx_create appends at the tail with index == old size, refuses iff max_tx>0 and size>max_tx, sets PIPELINED iff size > out_next_tx_index, new tx is blank',
                                     2: 'htp_connp_tx_freed removes exactly the leading NULL slots and shifts out_next_tx_index by the same count (denotes the same transaction)',
                                     3: 'htp_connp_RES_IDLE attaches the response to slot out_next_tx_index (or a fresh placeholder) and advances the index once'}[f],
                          bounds='real list with %d slots, each a live or destroyed transaction (symbolic), out_next_tx_index / max_tx / flags symbolic' % size))
    return obs

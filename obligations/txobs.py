from verif import Ob
TX_UNITS = ['htp_transaction.c', 'htp_hooks.c', 'htp_list.c', 'htp_table.c', 'bstr.c', 'htp_connection.c', 'htp_connection_parser.c', 'htp_config.c', 'htp_util.c', 'htp_request.c', 'htp_response.c', 'htp_utf8_decoder.c']
TX_RM = ['htp_log']
CBS = 'cb_req_start,cb_req_line,cb_req_headers,cb_req_body,cb_req_trailer,cb_req_complete,cb_res_start,cb_res_line,cb_res_headers,cb_res_body,cb_res_complete,cb_txc'
def hist(m0, b0, s0, th=0, ad=0, nreq=2, rounds=3, tier='quick', timeout=600, mem_gb=8, **kw):
    d = {'NREQ': nreq, 'ROUNDS': rounds, 'M0': m0, 'B0': b0, 'S0': s0, 'TH': th, 'AD': ad, 'M1': 'HTP_M_GET'}
    k407 = (m0 == 'HTP_M_CONNECT' and s0 == 407 and nreq > 1)
    nm = 'hist.%s%s.%d%s.ad%d.N%d.R%d' % (m0.replace('HTP_M_', ''), '+body' if b0 else '', s0, '.http' if th else '', ad, nreq, rounds)
    return Ob(nm, 'tx/hist.c', units=TX_UNITS, models=['@libc_model.c'], remove=TX_RM, defines=d,
              unwind=9 * nreq + 6, unwindset=['strlen.0:40', 'memcmp.0:40'], restrict_by=[(r'callback|->fn|\.fn', CBS)], object_bits=11,
              tier=tier, timeout=timeout, mem_gb=mem_gb, kfs=(['F4-double-complete'] if (m0 == 'HTP_M_CONNECT' and (s0 == 404 or (s0 == 200 and th))) else []) + (['C04-407-no-yield'] if k407 else []), kf_only=k407,
              statement='lifecycle monitor over a bounded history: callbacks in protocol order, progress monotone, REQUEST/RESPONSE/TRANSACTION_COMPLETE at most once, TRANSACTION_COMPLETE only when both sides complete and nothing after it, completion in arrival order, request i paired with response i, DATA_OTHER hand-overs make progress, tunnel mode produces nothing',
              bounds='script: request 0 = %s%s answered %d%s, then GET answered 200; tx_auto_destroy=%d; %d rounds of (request side runs until it yields, response side runs until it yields)' % (m0, ' with 1-byte body' if b0 else '', s0, ', tunnel payload is HTTP' if th else '', ad, rounds), **kw)

def hist_all(tier, nreq=2, rounds=3, t='quick'):
    obs = []
    for m0, b0 in (('HTP_M_GET', 0), ('HTP_M_GET', 1), ('HTP_M_CONNECT', 0)):
        for s0 in (200, 404, 407, 101, 100):
            for ad in (0, 1):
                obs.append(hist(m0, b0, s0, 0, ad, nreq, rounds, tier=t))
    for ad in (0, 1):
        obs.append(hist('HTP_M_CONNECT', 0, 200, 1, ad, nreq, rounds, tier=t))
        if nreq == 2: obs.append(hist('HTP_M_CONNECT', 0, 407, 0, ad, 1, rounds, tier=t))
    return obs

from verif import Ob
import hdrobs
META = {'bounds': 'header blocks of <= 3 lines generated from templates with symbolic spelling', 'outside': 'values longer than the templates; IPv6 literals (inet_pton not modelled); segmentation independence follows from C03 (same lines reach the processors)',
        'assumptions': ['hooks stubbed (return OK)', 'cookie/auth parsing off'], 'trusted_base': ['generators in harness/hdr/smuggle.c']}
def obligations(tier):
    T = 'thorough'
    Q = lambda big: 'quick' if not big else T
    obs = [hdrobs.smuggle(3), hdrobs.smuggle(4, tier=T)]
    obs += [hdrobs.smuggle(5, urih=u, hh=h, tier=('quick' if (u, h) in ((3, 1), (1, 0)) else T)) for u in (0, 1, 2, 3) for h in (0, 1, 2)]
    obs += [hdrobs.smuggle(6, kfs=['C11-folded-cl-not-flagged'], kf_only=True)]
    for o in (0, 1):
        obs.append(hdrobs.smuggle(1, 0, 0, o)); obs.append(hdrobs.smuggle(1, 1, 1, o, tier=T))
        if tier == T: obs += [hdrobs.smuggle(1, 1, 0, o, tier=T), hdrobs.smuggle(1, 1, 2, o, tier=T)]
    obs.append(hdrobs.smuggle(2, 0, 0)); obs.append(hdrobs.smuggle(2, 1, 1, tier=T))
    if tier == T: obs += [hdrobs.smuggle(2, 1, 0, tier=T), hdrobs.smuggle(2, 1, 2, tier=T)]
    # invalid-host indicator for out-of-range ports (Host header uses htp_parse_hostport), duplicate detection is case-insensitive (real table),
    # and the indicators do not depend on segmentation (merge lemma on the folded-header shape)
    import streamobs as so
    obs += [o for o in __import__('C13').obligations(tier) if o.name.startswith('hostport.')]
    obs += [o for o in __import__('C17').obligations(tier) if o.name.startswith('table.K')]
    obs += so.split('req', 1, 'x:x\r\n x\r\n\r\n', cuts=(4, 5, 6))
    return obs

from verif import Ob
import hdrobs
META = {'bounds': 'header blocks of <= 3 lines generated from templates with symbolic spelling', 'outside': 'values longer than the templates; IPv6 literals (inet_pton not modelled); segmentation independence follows from C03 (same lines reach the processors)',
        'assumptions': ['hooks stubbed (return OK)', 'cookie/auth parsing off'], 'trusted_base': ['generators in harness/hdr/smuggle.c']}
def obligations(tier):
    obs = [hdrobs.smuggle(s) for s in (3, 4)] + [hdrobs.smuggle(5, urih=u, hh=h, tier=('quick' if (u, h) in ((0, 1), (1, 1), (1, 2), (1, 0), (0, 0)) else 'thorough')) for u in (0, 1, 2) for h in (0, 1, 2)] + [hdrobs.smuggle(6, kfs=['C11-folded-cl-not-flagged'], kf_only=True)]
    for o in (0, 1):
        obs.append(hdrobs.smuggle(1, 0, 0, o)); obs.append(hdrobs.smuggle(1, 1, 1, o))
        if tier == 'thorough': obs += [hdrobs.smuggle(1, 1, 0, o, tier='thorough'), hdrobs.smuggle(1, 1, 2, o, tier='thorough')]
    obs.append(hdrobs.smuggle(2, 0, 0)); obs.append(hdrobs.smuggle(2, 1, 1))
    if tier == 'thorough': obs += [hdrobs.smuggle(2, 1, 0, tier='thorough'), hdrobs.smuggle(2, 1, 2, tier='thorough')]
    # invalid-host indicator for out-of-range ports (Host header uses htp_parse_hostport), duplicate detection is case-insensitive (real table),
    # and the indicators do not depend on segmentation (merge lemma on the folded-header shape)
    import streamobs as so
    obs += [o for o in __import__('C13').obligations(tier) if o.name.startswith('hostport.')]
    obs += [o for o in __import__('C17').obligations(tier) if o.name.startswith('table.K')]
    obs += so.split('req', 1, 'x:x\r\n x\r\n\r\n', cuts=(4, 5, 6))
    return obs

from verif import Ob
import txobs, streamobs as so
META = {'bounds': 'CONNECT/upgrade state functions from symbolic pre-states (chunks <= 4-5 bytes); drivers over contract stubs; concrete CONNECT histories (status 200/404/407/101/100, tunnel payload HTTP or not, auto-destroy on/off)',
        'outside': 'request-line and header parsing of the CONNECT request itself (abstract in the history harness)', 'assumptions': ['as C05 and C09'], 'trusted_base': ['harness/stream/*_step.c', 'harness/tx/hist.c']}
def obligations(tier):
    obs = [so.req_step(s, n=5) for s in (5, 6, 7, 13)] + [so.res_step(s, n=4) for s in (4, 10)]
    c9 = __import__('C09').obligations(tier)
    obs += [o for o in c9 if o.name.startswith('drv.')]
    obs += txobs.hist_all(tier, 'quick', which='connect') + [o for o in txobs.complete_all('quick') if 'response_complete_ex' in o.name]
    return obs

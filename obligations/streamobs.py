"""shared obligation builders for the stream layer (request/response state functions, drivers, differentials)"""
from verif import Ob
REQ_STATES = {1: 'IDLE', 2: 'LINE', 3: 'PROTOCOL', 4: 'HEADERS', 5: 'CONNECT_CHECK', 6: 'CONNECT_WAIT', 7: 'CONNECT_PROBE', 8: 'BODY_DETERMINE', 9: 'BODY_IDENTITY',
              10: 'CHUNKED_LENGTH', 11: 'CHUNKED_DATA', 12: 'CHUNKED_DATA_END', 13: 'FINALIZE', 14: 'IGNORE_0_9'}
STREAM_UNITS = ['htp_util.c', 'bstr.c']
STREAM_RM = ['bstr_alloc', 'bstr_expand', 'htp_log']
STREAM_MODELS = ['@fixed_alloc.c', '@libc_model.c']
REQ_FP = [(r'process_request_header', 'rec_header'), (r'parse_request_line', 'rec_parse_line')]
RES_FP = [(r'process_response_header', 'rec_header'), (r'parse_response_line', 'rec_parse_line')]

def req_step(state, n=4, b=2, h=2, tier='quick', timeout=600, mem_gb=8, exact=False, prefix='req', extra=None, **kw):
    d = {'STATE': state, 'N': n, 'B': b, 'H': h, 'FM_CAP': b + n + 2, 'FA_CAP': h + b + n + 4}
    if exact: d['EXACT'] = 1
    if extra: d.update(extra)
    nm = '%s.%s.N%d%s' % (prefix, REQ_STATES[state], n, '.exact' if exact else '')
    lim = n + b + 4
    us = ['htp_connp_REQ_HEADERS.0:%d' % (n + 2), 'htp_connp_REQ_HEADERS.1:%d' % (lim), 'htp_chomp.0:%d' % (lim), 'memchr.0:%d' % lim, 'strlen.0:20']
    return Ob(nm, 'stream/req_step.c', units=STREAM_UNITS, models=STREAM_MODELS, remove=STREAM_RM, defines=d, unwind=lim + 2, unwindset=us, restrict_by=REQ_FP,
              tier=tier, timeout=timeout, mem_gb=mem_gb,
              statement='real htp_connp_REQ_%s called from an arbitrary INV_A pre-state meets the state-function contract (return set, offsets, DATA => chunk consumed, progress, pointers handed out valid) and its state-specific clause' % REQ_STATES[state],
              bounds='chunk <= %d bytes (all values), carry buffer <= %d, pending header <= %d, all stub return codes' % (n, b, h), **kw)

RES_STATES = {1: 'IDLE', 2: 'LINE', 3: 'HEADERS', 4: 'BODY_DETERMINE', 5: 'IDENTITY_CL', 6: 'IDENTITY_CLOSE', 7: 'CHUNKED_LENGTH', 8: 'CHUNKED_DATA', 9: 'CHUNKED_DATA_END', 10: 'FINALIZE'}
def res_step(state, n=4, b=2, h=2, tier='quick', timeout=600, mem_gb=8, exact=False, prefix='res', extra=None, **kw):
    d = {'STATE': state, 'N': n, 'B': b, 'H': h, 'FM_CAP': b + n + 2, 'FA_CAP': max(h + b + n + 4, 34)}
    if exact: d['EXACT'] = 1
    if extra: d.update(extra)
    nm = '%s.%s.N%d%s' % (prefix, RES_STATES[state], n, '.exact' if exact else '')
    lim = n + b + 4
    us = ['htp_connp_RES_HEADERS.0:%d' % (n + 3), 'htp_chomp.0:%d' % lim, 'memchr.0:%d' % lim, 'strlen.0:40', 'bstr_util_cmp_mem_nocase.0:30', 'bstr_to_lowercase.0:30', 'htp_connp_RES_BODY_DETERMINE.1:30', 'bstr_util_mem_index_of_mem_nocase.0:30', 'bstr_util_mem_index_of_mem_nocase.1:30', 'bstr_util_mem_index_of_mem_nocasenorzero.0:30', 'bstr_util_mem_index_of_mem_nocasenorzero.1:30']
    return Ob(nm, 'stream/res_step.c', units=STREAM_UNITS, models=STREAM_MODELS, remove=STREAM_RM, defines=d, unwind=(n + b + 3 if state == 3 else lim + 2), unwindset=us, restrict_by=RES_FP,
              tier=tier, timeout=timeout, mem_gb=mem_gb,
              statement='real htp_connp_RES_%s called from an arbitrary INV_A pre-state meets the state-function contract and its state-specific clause' % RES_STATES[state],
              bounds='chunk <= %d bytes (all values), carry buffer <= %d, pending header <= %d, all stub return codes' % (n, b, h), **kw)

def chunked(side, sizes=(1, 2), tier='quick', timeout=300, mem_gb=4):
    obs = []
    for sz in sizes:
        for ext in (0, 1):
            n = 1 + (2 if ext else 0) + 2 + sz + 2 + 3 + 1
            for cut in range(0, n):
                d = {'MAXSZ': 3, 'SZ': sz, 'EXT': ext, 'CUT': cut, 'FM_CAP': n + 2, 'FA_CAP': n + 4}
                obs.append(Ob('%s.chunked.sz%d%s.cut%d' % (side, sz, '.ext' if ext else '', cut), 'stream/%s_chunked.c' % side, units=STREAM_UNITS, models=STREAM_MODELS, remove=STREAM_RM, defines=d, unwind=n + 3,
                              unwindset=['strlen.0:40'], restrict_by=(REQ_FP if side == 'req' else RES_FP), tier=tier, timeout=timeout, mem_gb=mem_gb, cost=5,
                              statement='generated chunked body through the real %s chunked states + the driver buffering code, whole and split at this cut: delivered bytes == payload exactly once in order, message_len == wire bytes, following byte unread' % side.upper(),
                              bounds='chunk size %d%s, payload bytes and the following byte symbolic (all values), cut at offset %d' % (sz, ' with extension' if ext else '', cut)))
    return obs

def cstr(sh):
    return '"' + sh.replace('\\', '\\\\').replace('\r', '\\r').replace('\n', '\\n').replace('"', '\\"') + '"'
def shname(sh):
    return sh.replace('\r', 'R').replace('\n', 'N').replace(' ', '_').replace(':', 'c').replace('/', 's').replace('.', 'p')
def split(side, start, shape, cuts=None, tier='quick', timeout=900, mem_gb=4, kfs=(), nostd=False, nohdr=False, **kw):
    n = len(shape); obs = []
    sname = {1: 'HEADERS', 2: 'LINE', 3: 'FINALIZE'}[start]
    for cut in (cuts if cuts is not None else range(1, n)):
        d = {'SHAPE': cstr(shape), 'START': start, 'CUT': cut, 'FM_CAP': 2 * n + 2, 'FA_CAP': 2 * n + 4, 'LOGSZ': 6 * n + 24}
        P = 'REQ' if side == 'req' else 'RES'
        if nohdr: d['NOHDR'] = 1
        ml = max(len(x) for x in shape.split('\n')) + 3          # longest line incl. terminator + slack: bound of the per-line scans
        logsz = 6 * n + 24
        ub = [(r'^harness\.', logsz + 2), (r'^evbytes\.', n + 4), (r'^htp_connp_(REQ|RES)_', n + 3), (r'^htp_chomp\.', 4), (r'^strlen\.', 40),
              (r'^(memchr|bstr_chr|htp_is_line_|htp_connp_is_line|htp_treat_response|bstr_util_mem_trim)', n + 2), (r'^htp_convert_method', 45), (r'^bstr_util_cmp_mem', 20)]
        flags = ['--no-standard-checks'] if nostd else []
        obs.append(Ob('%s.split.%s.%s.cut%d' % (side, sname, shname(shape), cut), 'stream/%s_split.c' % side, units=STREAM_UNITS, models=STREAM_MODELS, remove=STREAM_RM, defines=d, unwind=n + 4, unwind_by=ub,
                      restrict_by=(REQ_FP if side == 'req' else RES_FP), flags=flags, tier=tier, timeout=timeout, mem_gb=(max(mem_gb, 8) if start == 3 else mem_gb), kfs=list(kfs), cost=(150 if start == 3 else 60),
                      statement='merge lemma: %s_%s on this fragment delivered whole == delivered in two chunks cut at offset %d (event log: lines/headers handed on, body bytes, tx events, bytes left for the successor, flags)' % (P, sname, cut),
                      bounds='fragment shape %r (x = any field byte, y = any byte), %d bytes, cut %d' % (shape, n, cut), **kw))
    return obs

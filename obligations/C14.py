from verif import Ob
META = {'bounds': 'one text part, framing concrete (boundary "b", CRLF line ends, one Content-Disposition header), part data of 2 symbolic bytes (all values incl. CR LF - b), delivered whole and with one cut at a constant position per query',
        'outside': 'more than one part, file parts, preamble/epilogue, LF-only line ends, names with escapes, longer data, more than one cut', 'assumptions': ['htp_log stubbed', 'fixed-capacity bstr_alloc'], 'trusted_base': ['harness/mp/split.c']}
U = ['htp_multipart.c', 'bstr_builder.c', 'htp_list.c', 'htp_table.c', 'bstr.c', 'htp_util.c', 'htp_utf8_decoder.c']
def ob(cut, nd=2, tier='quick', timeout=900, mem_gb=12):
    return Ob('mp.one_text_part.ND%d.cut%d' % (nd, cut), 'mp/split.c', units=U, models=['@libc_model.c', '@fixed_alloc.c'], remove=['htp_log', 'bstr_alloc', 'bstr_expand'], defines={'ND': nd, 'CUT': cut, 'FA_CAP': 80}, unwind=12,
              unwind_by=[(r'^harness\.', 80), (r'^htp_mpartp_parse\.', 75), (r'^htp_mpartp_parse_header|^htp_mpart_part_parse_c_d|^htp_mpart_decode', 60), (r'^strlen', 40), (r'^bstr_util_cmp|^bstr_begins|^bstr_util_mem_index|^bstr_to_lower|^bstr_builder', 50),
                         (r'^htp_mpart_part_handle_data|^htp_martp_process_aside|^htp_mpartp_handle', 60), (r'^htp_chomp', 4), (r'^memchr', 60), (r'^htp_list|^htp_table', 12), (r'^check', 4)],
              tier=tier, timeout=timeout, mem_gb=mem_gb, statement='one generated text part through the whole real multipart parser: type, name and value exact, whole == split at this cut, flags equal',
              bounds='framing concrete, %d symbolic data bytes, cut %d' % (nd, cut))
def obligations(tier):
    return [ob(0)] + [ob(c) for c in (52, 53, 54, 56, 58)]

from verif import Ob
META = {'bounds': 'matcher: boundary "b", literal framing per shape (registered: one part with CRLF line ends, LF-only line ends, data ending in its own CRLF, preamble + epilogue in 2-byte chunks), 1 (quick) or 2 (thorough) symbolic bytes of part data (all 256 values, LF "--b" look-alikes excluded), one byte per call or 2-3 byte chunks, every chunk an exact-size heap object; part layer: literal Content-Disposition (text part, escaped quote / backslash inside and at the end of the name, file part, Content-Type line), 2 symbolic data bytes, header line whole or cut at 5 positions, data whole or cut; parameters: 3 parts of symbolic type; boundary extraction: literal Content-Type',
        'outside': 'two-part / preamble-as-data / header-byte framings one byte per call (no verdict under the caps tried, not registered); symbolic names / file names / boundary bytes; chunks of more than 3 bytes into a non-initial matcher state (no verdict); htp_mpartp_finalize itself; more than two parts; file extraction to disk; folded or unknown part headers; real bstr_builder / htp_list / htp_table (flat models here, the real ones are C17)',
        'assumptions': ['htp_log stubbed', 'fixed-capacity bstr_alloc (string bytes in a separate byte object for the part layer)', 'pieces_model.c: piece-preserving flat model of bstr_builder + htp_list', 'table_model.c for part headers', 'byte-loop memcpy model', 'recording handlers reproduce the part layer\'s line/data mode rule in the matcher obligations'],
        'trusted_base': ['harness/mp/match.c (recorders, construction log)', 'harness/mp/part.c', 'harness/mp/param.c', 'harness/mp/findb.c', 'harness/common/pieces_model.c']}
UM = ['bstr.c', 'htp_util.c', 'htp_utf8_decoder.c']
def match(shape, nd, cuts=None, maxchunk=1, label='split', tier='quick', timeout=900, mem_gb=12):
    d = {'ND': nd, 'SHAPE': shape, 'FA_CAP': 40, 'MAXPIECE': maxchunk, 'PM_NP': 7, 'PM_CAP': max(maxchunk, 2)}
    name = 'match.s%d.ND%d' % (shape, nd)
    if cuts is not None:
        d['SPLIT'] = 1; d['CUTS'] = '{' + ','.join(str(c) for c in cuts) + ',999}'
        name += '.' + label
    else: name += '.bytewise'
    k = maxchunk + 1 if maxchunk == 1 else maxchunk + 2
    return Ob(name, 'mp/match.c', units=UM, models=['@libc_model.c', '@fixed_alloc.c', '@pieces_model.c'], remove=['htp_log', 'bstr_alloc', 'bstr_expand'], defines=d, unwind=8,
              unwind_by=[(r'^harness\.', 60), (r'^htp_mpartp_parse\.6', k + 1), (r'^htp_mpartp_parse\.', k), (r'^htp_martp_process_aside', 6), (r'^htp_mpartp_init_boundary', 6), (r'^rec_data|^feed', k + 1), (r'^strlen', 8), (r'^mk', 4), (r'^bstr_builder|^htp_list', max(9, k))],
              restrict_by=[(r'handle_data', 'rec_data'), (r'handle_boundary', 'rec_boundary')],
              fp_strict=True, solver='cadical', tier=tier, timeout=timeout, mem_gb=mem_gb, statement='boundary matcher with recording handlers: the log of bytes, end-of-line marks, boundary events and the anomaly flags equal those of the construction for this delivery; every piece handed on is readable; no read outside the exact-size chunk', bounds='shape %d, %d symbolic byte(s) (all values), %s' % (shape, nd, 'one byte per call' if cuts is None else 'chunks ending at ' + ','.join(str(c) for c in cuts)))
UP = ['bstr.c', 'htp_util.c', 'htp_utf8_decoder.c', 'htp_hooks.c']
def part(variant, hc, dc, nd=2, namesym=0, tier='quick', timeout=600, mem_gb=8, escq=1):
    d = {'ESCQ': escq, 'VARIANT': variant, 'HC': hc, 'DC': dc, 'ND': nd, 'NAMESYM': namesym, 'FA_CAP': 72, 'PM_CAP': 72, 'PM_NP': 3, 'TM_MAXP': 3}
    return Ob('part.v%d.hc%d.dc%d%s%s' % (variant, hc, dc, '.namesym' if namesym else '', '.bs' if (variant == 4 and not escq) else ''), 'mp/part.c', units=UP, models=['@libc_model.c', '@fixed_alloc_split.c', '@pieces_model.c', '@table_model.c', '@memcpy_loop.c'], remove=['htp_log', 'bstr_alloc', 'bstr_expand'], defines=d, unwind=62,
              unwind_by=[(r'^htp_list|^htp_table|^bstr_builder_clear|^bstr_builder_destroy', 8), (r'^memcpy', 76), (r'^bstr_builder_to_str|^bstr_builder_append', 76), (r'^htp_mpart_part_parse_c_d|^bstr_util_mem_index_of_mem\.0', 27), (r'^bstr_util_mem_index_of_mem\.1', 11), (r'^htp_mpart_decode_quoted', 5), (r'^bstr_util_cmp_mem_nocase', 21), (r'^strlen', 21), (r'^htp_mpartp_cd_param_type|^htp_parse_ct', 12)],
              flags=['--max-field-sensitivity-array-size', '128'], restrict_by=[(r'handle_data', 'htp_mpartp_handle_data'), (r'handle_boundary', 'htp_mpartp_handle_boundary'), (r'callback|->fn|\\.fn', 'cb_file')],
              fp_strict=True, tier=tier, timeout=timeout, mem_gb=mem_gb, statement='part layer behind the matcher seam: type, name, file name, content type, value / file bytes exact, no anomaly flag, for this cutting of the header line and the data', bounds='variant %d (0 text, 1 escaped quote inside, 2 file, 3 + Content-Type, 4 escape at the end), header line cut at %d (0 = whole), data cut at %d, 2 symbolic data bytes, is_line of data pieces symbolic' % (variant, hc, dc))
NPRE = {0: 10, 1: 10, 2: 7, 3: 14, 4: 0, 5: 5, 6: 12}
NPOST = {0: 9, 1: 21, 2: 7, 3: 11, 4: 21, 5: 16, 6: 9}
def chunks(shape, nd, sizes, start=None):
    """cut list: everything before `start` (default: start of D) one byte per call, then chunks of the given sizes, rest one byte per call"""
    tot = NPRE[shape] + nd + NPOST[shape]
    at = NPRE[shape] if start is None else start
    cuts = list(range(1, at + 1))
    for z in sizes:
        at += z; cuts.append(at)
    cuts += list(range(at + 1, tot + 1))
    return [c for c in cuts if c <= tot]
def obligations(tier):
    obs = []
    # part layer: line length of variant 0 is 43 (41 + CRLF)
    for v in (0, 1, 2, 3):
        obs.append(part(v, 0, 0))
    for hc in (1, 20, 39, 41, 42): obs.append(part(0, hc, 1))
    obs.append(part(2, 45, 1)); obs.append(part(3, 42, 1))
    obs.append(part(4, 0, 0)); obs.append(part(4, 0, 1, escq=0)); obs.append(part(4, 30, 1))
    obs.append(Ob('param.text_parts', 'mp/param.c', units=['htp_content_handlers.c'], models=['@libc_model.c', '@pieces_model.c'], defines={'PM_NE': 4, 'PM_NP': 1, 'PM_CAP': 1}, unwind=6, tier='quick', timeout=300, mem_gb=4,
                  statement='text parts, and only they, become body parameters in order with the same name and value strings; ownership handed over once; later calls refused', bounds='3 parts, every combination of part types'))
    for q in (0, 1):
        obs.append(Ob('boundary.find.q%d' % q, 'mp/findb.c', units=['htp_multipart.c', 'bstr.c', 'htp_util.c', 'htp_utf8_decoder.c'], models=['@libc_model.c', '@fixed_alloc_split.c', '@pieces_model.c', '@memcpy_loop.c'], remove=['htp_log', 'bstr_alloc', 'bstr_expand'],
                      defines={'NB': 2, 'NBCONC': 2, 'QUOTED': q, 'FA_CAP': 48, 'PM_NE': 2, 'PM_NP': 1, 'PM_CAP': 1}, unwind=44, flags=['--max-field-sensitivity-array-size', '128'], tier='quick', timeout=600, mem_gb=8,
                      statement='boundary parameter extracted exactly, no header anomaly flag, delimiter = CR LF -- boundary', bounds='literal boundary "bQ" (any symbolic boundary byte ran out of memory), %s' % ('quoted' if q else 'unquoted')))
    # boundary matcher (cadical; 12 GB each): quick = one symbolic data byte in four framings, one byte per call, plus a 2-byte chunking;
    # thorough = every framing with one and two symbolic bytes
    for sh in (0, 2, 6): obs.append(match(sh, 1, timeout=1200))
    for sh in (0, 3, 6): obs.append(match(sh, 1, cuts=chunks(sh, 1, [2] * 12), maxchunk=2, label='chunks2', timeout=900))
    if tier == 'thorough':
        # two symbolic bytes, one byte per call: the two framings that were seen to finish (783 s and 1057 s at 10 GB with minisat)
        for sh in (0, 2): obs.append(match(sh, 2, timeout=3600, mem_gb=24, tier='thorough'))
        # Not registered (no verdict, out of memory or CBMC status ERROR under the caps tried, not re-run with 24 GB for lack of time;
        # a check that ends inconclusive on the unchanged tree is of no use): shapes 1, 3, 4, 5 one byte per call with one byte,
        # shapes 1, 3, 4, 5, 6 with two bytes, 2-byte chunks in the other alignment, 3-byte chunks, shape 2 in 2-byte chunks:
        #   match(sh, 1) for sh in (3, 1, 4, 5); match(sh, 2) for sh in (6, 1, 3, 4, 5);
        #   match(0, 1, cuts=chunks(0, 1, [1, 2, 2, 2, 2, 1]), maxchunk=2); match(0, 1, cuts=chunks(0, 1, [3, 3, 3, 1]), maxchunk=3); match(2, 1, cuts=chunks(2, 1, [2] * 12), maxchunk=2)
    return obs

from verif import Ob
META = {'bounds': 'TBD', 'outside': 'TBD', 'assumptions': ['htp_log stubbed', 'fixed-capacity bstr_alloc'], 'trusted_base': ['harness/mp/match.c']}
UM = ['bstr.c', 'htp_util.c', 'htp_utf8_decoder.c']
def match(shape, nd, cuts=None, maxchunk=1, label='split', tier='quick', timeout=900, mem_gb=12):
    d = {'ND': nd, 'SHAPE': shape, 'FA_CAP': 40, 'MAXPIECE': maxchunk, 'PM_NP': 7, 'PM_CAP': max(maxchunk, 2)}
    name = 'match.s%d.ND%d' % (shape, nd)
    if cuts is not None:
        d['SPLIT'] = 1; d['CUTS'] = '{' + ','.join(str(c) for c in cuts) + ',999}'
        name += '.' + label
    else: name += '.bytewise'
    k = maxchunk + 1
    return Ob(name, 'mp/match.c', units=UM, models=['@libc_model.c', '@fixed_alloc.c', '@pieces_model.c'], remove=['htp_log', 'bstr_alloc', 'bstr_expand'], defines=d, unwind=8,
              unwind_by=[(r'^harness\.', 60), (r'^htp_mpartp_parse\.6', k + 1), (r'^htp_mpartp_parse\.', k), (r'^htp_martp_process_aside', 6), (r'^htp_mpartp_init_boundary', 6), (r'^rec_data', k), (r'^strlen', 8), (r'^mk', 4), (r'^bstr_builder|^htp_list', max(9, k))],
              restrict_by=[(r'handle_data', 'rec_data'), (r'handle_boundary', 'rec_boundary')],
              fp_strict=True, tier=tier, timeout=timeout, mem_gb=mem_gb, statement='matcher', bounds='shape %d, %d symbolic data bytes' % (shape, nd))
UP = ['bstr.c', 'htp_util.c', 'htp_utf8_decoder.c', 'htp_hooks.c']
def part(variant, hc, dc, nd=2, tier='quick', timeout=600, mem_gb=8):
    d = {'VARIANT': variant, 'HC': hc, 'DC': dc, 'ND': nd, 'FA_CAP': 72, 'PM_CAP': 72, 'PM_NP': 3, 'TM_MAXP': 3}
    return Ob('part.v%d.hc%d.dc%d' % (variant, hc, dc), 'mp/part.c', units=UP, models=['@libc_model.c', '@fixed_alloc.c', '@pieces_model.c', '@table_model.c'], remove=['htp_log', 'bstr_alloc', 'bstr_expand'], defines=d, unwind=48,
              unwind_by=[(r'^htp_list|^htp_table|^bstr_builder_clear|^bstr_builder_destroy', 8), (r'^htp_mpart_part_parse_c_d|^bstr_util_mem_index_of_mem\.0', 27), (r'^bstr_util_mem_index_of_mem\.1', 11), (r'^htp_mpart_decode_quoted', 5), (r'^bstr_util_cmp_mem_nocase', 21), (r'^strlen', 21), (r'^htp_mpartp_cd_param_type|^htp_parse_ct', 12)],
              restrict_by=[(r'handle_data', 'htp_mpartp_handle_data'), (r'handle_boundary', 'htp_mpartp_handle_boundary'), (r'callback|->fn|\\.fn', 'cb_file')],
              fp_strict=True, tier=tier, timeout=timeout, mem_gb=mem_gb, statement='part layer', bounds='variant %d, header cut %d, data cut %d' % (variant, hc, dc))
NPRE = {0: 10, 1: 10, 2: 7, 3: 14, 4: 0, 5: 5}
NPOST = {0: 9, 1: 21, 2: 7, 3: 11, 4: 21, 5: 16}
def chunks(shape, nd, sizes, start=None):
    """cut list: everything before `start` (default: start of D) one byte per call, then chunks of the given sizes, rest one byte per call"""
    tot = NPRE[shape] + nd + NPOST[shape]
    at = NPRE[shape] if start is None else start
    cuts = list(range(1, at + 1))
    for z in sizes:
        at += z; cuts.append(at)
    cuts += list(range(at + 1, tot + 1))
    return [c for c in cuts if c <= tot]
def obligations(tier):
    obs = [match(0, 2), match(0, 2, cuts=chunks(0, 2, [2, 2, 2]), maxchunk=2), part(0, 0, 0), part(0, 20, 1), match(0, 1, cuts=chunks(0, 1, [3], start=0), maxchunk=3, label='bnd_at_chunk_end')]
    return obs

from verif import Ob
META = {
 'bounds': 'request targets / authorities / port texts of <= N bytes, all 256 byte values (N=7 quick; N=8 all bytes and N=10 over the property alphabet {a : / @ ? # [ ] . 0 9 SP} thorough)',
 'outside': 'targets longer than the bound; allocation failure (C18)',
 'assumptions': ['bstr_alloc/bstr_expand replaced by a fixed-capacity model (harness/common/fixed_alloc.c); requests above the capacity are outside the bound',
                 'memchr model = byte loop (harness/common/libc_model.c)', 'htp_log body replaced by a counter'],
 'trusted_base': ['fixed_alloc.c', 'libc_model.c'],
}
U = ['htp_util.c', 'bstr.c']
RM = ['bstr_alloc', 'bstr_expand', 'htp_log']
MODELS = ['@fixed_alloc.c', '@libc_model.c', '@log_stub.c']
def obligations(tier):
    obs = []
    def uri(n, alpha, tier_, to):
        d = {'N': n, 'FA_CAP': n + 2}
        if alpha: d['ALPHA'] = 1
        obs.append(Ob('uri_rejoin.N%d%s' % (n, '.alpha' if alpha else ''), 'C13/uri_rejoin.c', units=U, models=MODELS, remove=RM, defines=d,
                      unwind=n + 3, kfs=['C13-ipv6-tail'], tier=tier_, timeout=to, mem_gb=6,
                      statement='re-joining scheme/user/password/host/port/path/query/fragment with their delimiters reproduces the target minus trailing spaces; target starting with / has no scheme/authority',
                      bounds='target <= %d bytes, %s' % (n, 'alphabet {a:/@?#[].09 SP}' if alpha else 'all byte values')))
    uri(7, False, 'quick', 600)
    uri(8, False, 'thorough', 1500)
    uri(10, True, 'thorough', 1500)
    for n, t, to in ((7, 'quick', 600), (9, 'thorough', 1500)):
        obs.append(Ob('hostport.N%d' % n, 'C13/hostport.c', units=U, models=MODELS, remove=RM, defines={'N': n, 'FA_CAP': n + 2}, unwind=n + 3, tier=t, timeout=to,
                      statement='htp_parse_hostport: host and port are contiguous substrings of the trimmed authority; port_number = decimal value iff 1..65535, else -1 and invalid',
                      bounds='authority <= %d bytes, all byte values' % n))
        obs.append(Ob('port.N%d' % n, 'C13/port.c', units=U + ['htp_utf8_decoder.c'], models=MODELS, remove=RM, defines={'N': n, 'FA_CAP': n + 2}, unwind=n + 3, tier=t, timeout=to,
                      statement='htp_normalize_parsed_uri: port_number = decimal value of the port text iff 1..65535, else -1 and HTP_HOSTU_INVALID',
                      bounds='port text <= %d bytes, all byte values' % n))
    obs.append(Ob('hostport.portdigits.N22', 'C13/hostport.c', units=U, models=MODELS, remove=RM, defines={'N': 22, 'FA_CAP': 24, 'PORTDIGITS': 1}, unwind=25, tier='quick', timeout=900, solver='kissat', expect_covers=False,
                  statement='htp_parse_hostport on host "a" with a long digit port: port_number = value iff 1..65535, else -1 and invalid (no wrap-around)', bounds='"a:" + 0..20 decimal digits'))
    obs.append(Ob('port.digits.N20', 'C13/port.c', units=U + ['htp_utf8_decoder.c'], models=MODELS, remove=RM, defines={'N': 20, 'FA_CAP': 22, 'DIGITS': 1}, unwind=23, tier='quick', timeout=900, solver='kissat',
                  statement='port range check on long digit strings (values around 2^16, 2^31, 2^32, 2^63, 2^64): valid iff 1..65535', bounds='port text = 0..20 decimal digits'))
    return obs

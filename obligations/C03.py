from verif import Ob
import streamobs as so
META = {'bounds': 'fragments <= 8-14 bytes with the line structure fixed by a shape and every field/body byte symbolic; every single cut position; clean pre-state (all two-chunk deliveries of the fragment)',
        'outside': 'fragments longer than the shapes; symbolic carry buffer / pending header at the start (thorough only where it fits); more than one cut per query (covered by induction on the merge lemma, informal)',
        'assumptions': ['layers B/C are recorders', 'fixed-size in_buf/out_buf and bstr_alloc'], 'trusted_base': ['harness/stream/*_split.c driver-loop replica (DATA/DATA_BUFFER branch is the real static code)']}
def obligations(tier):
    obs = []
    T = 'thorough'
    # request side: every field byte symbolic
    obs += so.split('req', 1, 'xx\r\n\r\ny')
    obs += so.split('req', 1, 'x:x\r\n x\r\n\r\n', cuts=(3, 4, 5, 6, 8))
    obs += so.split('req', 1, 'xx\n\ny')
    obs += so.split('req', 2, 'x x\r\ny', nohdr=True)
    obs += so.split('req', 2, 'xx x x\ny', nohdr=True)
    obs += so.split('req', 3, 'GET x\r\n', cuts=(1, 3, 4, 6))
    # response side, quick: line structure and field letters literal, the bytes the heuristics look at symbolic
    obs += so.split('res', 1, 'ab\r\n\r\ny', cuts=(4, 5), kfs=['F1-lfcr-at-cut'], nostd=True, timeout=1200, mem_gb=6)
    obs += so.split('res', 1, 'a:b\r\n c\r\n\r\ny', cuts=(5,), kfs=['C03-res-fold-at-cut'], kf_only=True, nostd=True)
    obs += so.split('res', 3, 'HTTPx\r\n', cuts=(2,), kfs=['C03-res-finalize-unread'], kf_only=True, nostd=True)
    obs += so.split('res', 3, 'HTTPx\r\n', cuts=(5, 6), nostd=True)
    obs += so.split('res', 2, 'HTTPx\r\ny', nostd=True, nohdr=True)
    obs += so.split('res', 2, 'HTTP/1.1 2dd x\r\ny', cuts=(4, 9, 12, 15, 16), nostd=True, nohdr=True)
    c6 = __import__('C06').obligations('quick')
    obs += [o for o in c6 if '.chunked.' in o.name]
    # compressed bodies: the decompression glue must see the same stream however the compressed bytes are cut (C07 glue obligations: .lzma header split, flow over two calls)
    obs += [o for o in __import__('C07').obligations('quick') if o.name.startswith('glue.s2.') or o.name.startswith('glue.s3.L3_2')]
    if tier == T:
        obs += so.split('req', 1, 'x:x\r\n x\r\n\r\n', cuts=(1, 2, 7, 9, 10), tier=T)
        obs += so.split('req', 3, 'GET x\r\n', cuts=(2, 5), tier=T)
        obs += so.split('res', 1, 'ab\r\n\r\ny', cuts=(1, 2, 3, 6), kfs=['F1-lfcr-at-cut'], nostd=True, tier=T, timeout=2400)
        obs += so.split('res', 1, 'a:b\n\ny', kfs=['F1-lfcr-at-cut'], nostd=True, tier=T, timeout=2400)
        obs += so.split('res', 1, 'a:b\r\n c\r\n\r\ny', cuts=(1, 2, 3, 4, 6, 7, 8, 9, 10, 11), kfs=['F1-lfcr-at-cut'], nostd=True, tier=T, timeout=3000, mem_gb=12)
        obs += so.split('res', 1, 'xx\r\n\r\ny', kfs=['F1-lfcr-at-cut'], nostd=True, tier=T, timeout=2400, mem_gb=12)
        obs += so.split('res', 1, 'x\n x\n\n', cuts=(1, 3, 4, 5, 6), kfs=['F1-lfcr-at-cut'], nostd=True, tier=T, timeout=2400, mem_gb=12)
        obs += so.split('res', 1, 'xx\n\ny', nostd=True, tier=T, timeout=2400, mem_gb=12)
        obs += so.split('req', 1, 'x:x\r\n\tx\r\n\r\n', tier=T, timeout=1500)
        obs += so.split('req', 2, 'x x\n\n', tier=T, timeout=2400, mem_gb=20)
    return obs

from verif import Ob
import streamobs as so
META = {'bounds': 'fragments <= 8-14 bytes with the line structure fixed by a shape and every field/body byte symbolic; every single cut position; clean pre-state (all two-chunk deliveries of the fragment)',
        'outside': 'fragments longer than the shapes; symbolic carry buffer / pending header at the start (thorough only where it fits); more than one cut per query (covered by induction on the merge lemma, informal)',
        'assumptions': ['layers B/C are recorders', 'fixed-size in_buf/out_buf and bstr_alloc'], 'trusted_base': ['harness/stream/*_split.c driver-loop replica (DATA/DATA_BUFFER branch is the real static code)']}
def obligations(tier):
    obs = []
    obs += so.split('req', 1, 'xx\r\n\r\ny')
    obs += so.split('req', 1, 'x:x\r\n x\r\n\r\n')
    obs += so.split('req', 1, 'xx\n\ny')
    obs += so.split('req', 2, 'xx x\r\nx:\r\n')
    obs += so.split('req', 3, 'GET x\r\n')
    obs += so.split('res', 1, 'xx\r\n\r\ny', kfs=['F1-lfcr-at-cut'], nostd=True)
    return obs

from verif import Ob
import txobs
META = {'bounds': 'local obligations from every list shape of <= 3 slots (induction on API calls); concrete histories of 1-3 request/response pairs', 'outside': 'N > 3 in one query; line/header parsing abstract in histories',
        'assumptions': ['as C05'], 'trusted_base': ['harness/tx/pairing.c', 'harness/tx/hist.c ghost request/response tags']}
def obligations(tier):
    import streamobs as so
    return txobs.pairing('quick') + txobs.hist_all(tier, 'quick') + [o for o in txobs.complete_all('quick') if 'response_complete_ex' in o.name] + [so.res_step(4, n=4), so.res_step(1, n=4)] + [o for o in __import__('C16').obligations('quick') if o.name.startswith('req.CONNECT_')]   # after a CONNECT the tunnelled requests are only paired if the tunnel/HTTP decision is taken on a whole line

/* C15.tx: the REAL htp_ch_urlencoded_callback_request_body_data (htp_content_handlers.c) over a recording urlencoded parser and the
 * flat table model: a data call is forwarded untouched; at end of body the parser is ALWAYS finalised, exactly once, whatever the
 * state of its internal field buffers (a pending "name=" with an empty value only becomes a pair in finalize), then every pair of
 * the table becomes a body parameter in order with the same strings; the table is handed over once, later calls are refused. */
#include "verif.h"
#include "htp_private.h"
#ifndef NP
#define NP 2
#endif
static unsigned n_fin, n_parse, n_add; static htp_param_t *added[NP+2]; static const void *parse_data; static size_t parse_len;
static bstr K[NP+1], Vv[NP+1]; static htp_urlenp_t U; static htp_tx_t TX; static unsigned npairs, pending;
htp_status_t htp_urlenp_parse_partial(htp_urlenp_t *u, const void *d, size_t len){ n_parse++; parse_data=d; parse_len=len; return HTP_OK; }
htp_status_t htp_urlenp_finalize(htp_urlenp_t *u){ n_fin++; if(pending){ htp_table_addn(u->params,&K[npairs],&Vv[npairs]); pending=0; } return HTP_OK; }   /* the pending field becomes the last pair */
htp_status_t htp_tx_req_add_param(htp_tx_t *tx, htp_param_t *param){ assert(n_add<NP+2); added[n_add++]=param; return HTP_OK; }
void harness(void){
    TX.request_urlenp_body=&U; U.params=htp_table_create(4); __CPROVER_assume(U.params);
    npairs=in_range(0,NP); for(unsigned i=0;i<NP;i++) if(i<npairs) htp_table_addn(U.params,&K[i],&Vv[i]);
    pending=in_bool();
    /* the parser's internal buffers in any state: a name kept aside or not, pieces buffered or not */
    U._name=in_bool()?&K[NP]:NULL; static bstr_builder_t BB; U._bb=in_bool()?&BB:NULL; U._state=in_range(0,2);
    unsigned total=npairs+pending, pending0=pending;
    htp_tx_data_t d; d.tx=&TX; static unsigned char chunk[3]; d.data=chunk; d.len=in_range(0,3);
    htp_status_t rc=htp_ch_urlencoded_callback_request_body_data(&d);
    assert(rc==HTP_OK && n_parse==1 && parse_data==chunk && parse_len==d.len && n_fin==0 && n_add==0);
    d.data=NULL; d.len=0; rc=htp_ch_urlencoded_callback_request_body_data(&d);
    assert(rc==HTP_OK); assert(n_fin==1); assert(n_add==total);
    for(unsigned i=0;i<NP+1;i++) if(i<total){ assert(added[i]->name==&K[i] && added[i]->value==&Vv[i] && added[i]->source==HTP_SOURCE_BODY && added[i]->parser_id==HTP_PARSER_URLENCODED); }
    assert(U.params==NULL);
    rc=htp_ch_urlencoded_callback_request_body_data(&d); assert(rc==HTP_ERROR && n_fin==1 && n_add==total);
    VERIF_COVER(pending0 && npairs==0, "only a pending field"); VERIF_WITNESS();
}

/* C15: the REAL streaming urlencoded parser (htp_urlenp_parse_partial + finalize, real field assembly)
 * on a symbolic string: (a) the pairs equal the reference rule - split on '&', split each piece at its
 * first '=', drop only a final empty piece - in order, including empty names and values; (b) the result
 * is identical when the string is cut at CUT. Containers (bstr_builder, table) are their abstract models. */
#include "verif.h"
#include "htp_private.h"
#ifndef N
#define N 4
#endif
unsigned verif_nlog;
void htp_log(htp_connp_t *connp, const char *file, int line, enum htp_log_level_t level, int code, const char *fmt, ...){ verif_nlog++; }
static htp_cfg_t CFG; static htp_tx_t TX;
static htp_urlenp_t *run(unsigned char *buf, size_t len, size_t cut){
    htp_urlenp_t *u=htp_urlenp_create(&TX); __CPROVER_assume(u!=NULL); u->decode_url_encoding=DECODE;
    if(cut==0||cut>=len) htp_urlenp_parse_partial(u,buf,len);
#ifdef CUT2
    else if(CUT2>cut && CUT2<len){ htp_urlenp_parse_partial(u,buf,cut); htp_urlenp_parse_partial(u,buf+cut,CUT2-cut); htp_urlenp_parse_partial(u,buf+CUT2,len-CUT2); }
#endif
    else { htp_urlenp_parse_partial(u,buf,cut); htp_urlenp_parse_partial(u,buf+cut,len-cut); }
    htp_urlenp_finalize(u); return u; }
/* reference rule over arrays */
typedef struct { size_t ns, nl, vs, vl; } pair_t;
static size_t ref_split(const unsigned char *d, size_t len, pair_t *out){
    size_t n=0, s=0;
    for(size_t i=0;i<=N;i++){ if(i>len) break;
        if(i==len || d[i]=='&'){ size_t e=i;
            if(!(i==len && e==s)){          /* drop only a final empty piece */
                size_t q=s; while(q<e && d[q]!='=') q++;
                out[n].ns=s; out[n].nl=q-s; if(q<e){ out[n].vs=q+1; out[n].vl=e-q-1; } else { out[n].vs=e; out[n].vl=0; } n++; }
            s=i+1; } }
    return n; }
static int eqb(const bstr *b, const unsigned char *d, size_t n){ if(bstr_len(b)!=n) return 0; for(size_t i=0;i<N;i++) if(i<n && bstr_ptr(b)[i]!=d[i]) return 0; return 1; }
void harness(void){
    TX.cfg=&CFG; htp_decoder_cfg_t *dc=&CFG.decoder_cfgs[HTP_DECODER_URLENCODED];
    dc->plusspace_decode=in_bool(); dc->url_encoding_invalid_handling=in_range(0,2); static unsigned char MAP[3]={0,0,0}; dc->bestfit_map=MAP; dc->bestfit_replacement_byte='?';
    unsigned char buf[N]; for(int i=0;i<N;i++){ buf[i]=in_u8();
#ifdef ALPHA
        { unsigned char c=buf[i]; __CPROVER_assume(c=='a'||c=='='||c=='&'||c=='%'||c=='+'||c=='1'||c==0); }
#endif
    }
#ifdef FIELD3
    /* one name of three symbolic non-separator bytes followed by '=' : the field is spread over three chunks by CUT/CUT2 */
#ifdef FIELD3_CONCRETE
    buf[0]='a'; buf[1]='b';       /* with the real builder only the last name byte stays symbolic (the full-heap query does not fit otherwise) */
#endif
    __CPROVER_assume(buf[0]!='&'&&buf[0]!='='&&buf[1]!='&'&&buf[1]!='='&&buf[2]!='&'&&buf[2]!='='); buf[3]='='; size_t len=4;
#else
    size_t len=in_size_le(N);
#endif
    size_t cut=CUT; __CPROVER_assume(cut<len||cut==0);
    htp_urlenp_t *a=run(buf,len,0);
    size_t na=htp_table_size(a->params);
#if DECODE==0
    { pair_t ref[N+1]; size_t nr=ref_split(buf,len,ref); assert(na==nr);
      for(size_t i=0;i<N+1;i++) if(i<nr){ bstr *k=NULL; bstr *v=htp_table_get_index(a->params,i,&k); assert(k&&v); assert(eqb(k,buf+ref[i].ns,ref[i].nl)); assert(eqb(v,buf+ref[i].vs,ref[i].vl)); } }
#endif
#if CUT>0
    htp_urlenp_t *b=run(buf,len,cut); size_t nb=htp_table_size(b->params);
    assert(na==nb);
    for(size_t i=0;i<N+1;i++) if(i<na){ bstr *ka,*kb; bstr *va=htp_table_get_index(a->params,i,&ka), *vb=htp_table_get_index(b->params,i,&kb); assert(bstr_cmp(ka,kb)==0); assert(bstr_cmp(va,vb)==0); }
#endif
#ifndef FIELD3
    VERIF_COVER(na>=2, "two pairs");
#endif
    VERIF_WITNESS();
}

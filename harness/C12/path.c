/* C12.path: htp_decode_path_inplace vs the reference model, every decoder switch symbolic:
 * output bytes, tx->flags and response_status_expected_number equal; output never longer. */
#include "verif.h"
#include "decmodel.h"
#ifndef N
#define N 6
#endif
#ifndef KF_MODE_C12_path_raw_nul_flag
#define KF_MODE_C12_path_raw_nul_flag 0
#endif
void harness(void){
    static htp_cfg_t CFG; static htp_tx_t TX; TX.cfg=&CFG;
    htp_decoder_cfg_t *d=&CFG.decoder_cfgs[HTP_DECODER_URL_PATH]; m_symbolic_cfg(d);
    size_t len=in_size_le(N); unsigned char raw[N];
    bstr *b=bstr_alloc(N); __CPROVER_assume(b);
    for(size_t i=0;i<N;i++){ raw[i]=in_u8();
#ifdef ALPHA
        { unsigned char c=raw[i]; __CPROVER_assume(c=='%'||c=='u'||c=='U'||c=='0'||c=='2'||c=='5'||c=='c'||c=='f'||c=='F'||c=='g'||c=='/'||c=='\\'||c=='.'||c==0||c=='A'||c=='a'||c==0x01||c=='4'); }
#endif
        bstr_ptr(b)[i]=raw[i]; }
    bstr_adjust_len(b,len);
    int st0=in_bool()?0:200; TX.response_status_expected_number=st0;
    /* known finding: a raw NUL that the decoder reaches never raises HTP_PATH_RAW_NUL */
    mres_t m; m_decode_path(d,raw,len,st0,&m);
    KF_GATE(KF_MODE_C12_path_raw_nul_flag, (m.flags&HTP_PATH_RAW_NUL)!=0);
    htp_status_t rc=htp_decode_path_inplace(&TX,b);
    assert(rc==HTP_OK);
    assert(bstr_len(b)<=len);
    assert(bstr_len(b)==m.n);
    for(size_t i=0;i<N;i++) if(i<m.n) assert(bstr_ptr(b)[i]==m.out[i]);
    assert(TX.flags==m.flags);
    assert(TX.response_status_expected_number==m.status);
    VERIF_COVER((m.flags&HTP_PATH_ENCODED_SEPARATOR) && (m.flags&HTP_PATH_INVALID_ENCODING), "encoded separator and invalid encoding in one path");
    VERIF_COVER((m.flags&HTP_PATH_OVERLONG_U)!=0, "overlong %u");
    VERIF_COVER(m.n+5==len, "six bytes decoded to one");
    VERIF_WITNESS();
}

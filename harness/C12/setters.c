/* C12 (configuration lattice): every public decoder setter writes exactly its own switch - in the named context, or in all
 * contexts when called with HTP_DECODER_DEFAULTS - and nothing else in the decoder configuration. Real htp_config.c. */
#include "verif.h"
#include "htp_private.h"
unsigned verif_nlog;
void htp_log(htp_connp_t *connp, const char *file, int line, enum htp_log_level_t level, int code, const char *fmt, ...){ verif_nlog++; }
#define FLAGSET(X) X(nul_raw_terminates) X(nul_encoded_terminates) X(u_encoding_decode) X(backslash_convert_slashes) X(path_separators_decode) X(path_separators_compress) X(plusspace_decode) X(convert_lowercase) X(utf8_convert_bestfit)
#define UNWSET(X) X(u_encoding_unwanted) X(control_chars_unwanted) X(url_encoding_invalid_unwanted) X(nul_encoded_unwanted) X(nul_raw_unwanted) X(path_separators_encoded_unwanted) X(utf8_invalid_unwanted)
void harness(void){
    static htp_cfg_t CFG, OLD;
    { unsigned char *cb=(unsigned char*)&CFG.decoder_cfgs; for(size_t i=0;i<sizeof CFG.decoder_cfgs;i++) cb[i]=in_u8(); }
    OLD=CFG;
    unsigned ctx=in_range(0,3); unsigned which=WHICH;      /* the setter: constant per query */ int v=in_int(); __CPROVER_assume(v>=-1 && v<=500);
    unsigned k=0;
#define CALLF(name) if(which==k++){ htp_config_set_##name(&CFG,ctx,v); for(unsigned c=0;c<3;c++){ int hit=(ctx==c)||(ctx==HTP_DECODER_DEFAULTS); if(ctx<3 && hit) assert(CFG.decoder_cfgs[c].name==(v?1:0)); else assert(CFG.decoder_cfgs[c].name==OLD.decoder_cfgs[c].name); OLD.decoder_cfgs[c].name=CFG.decoder_cfgs[c].name; } }
    FLAGSET(CALLF)
#define CALLU(name) if(which==k++){ htp_config_set_##name(&CFG,ctx,(enum htp_unwanted_t)v); for(unsigned c=0;c<3;c++){ int hit=(ctx==c)||(ctx==HTP_DECODER_DEFAULTS); if(ctx<3 && hit) assert((int)CFG.decoder_cfgs[c].name==v); else assert(CFG.decoder_cfgs[c].name==OLD.decoder_cfgs[c].name); OLD.decoder_cfgs[c].name=CFG.decoder_cfgs[c].name; } }
    UNWSET(CALLU)
    if(which==k++){ htp_config_set_url_encoding_invalid_handling(&CFG,ctx,(enum htp_url_encoding_handling_t)v); for(unsigned c=0;c<3;c++){ int hit=(ctx==c)||(ctx==HTP_DECODER_DEFAULTS); if(ctx<3 && hit) assert((int)CFG.decoder_cfgs[c].url_encoding_invalid_handling==v); else assert(CFG.decoder_cfgs[c].url_encoding_invalid_handling==OLD.decoder_cfgs[c].url_encoding_invalid_handling); OLD.decoder_cfgs[c].url_encoding_invalid_handling=CFG.decoder_cfgs[c].url_encoding_invalid_handling; } }
    if(which==k++){ htp_config_set_bestfit_replacement_byte(&CFG,ctx,v); for(unsigned c=0;c<3;c++){ int hit=(ctx==c)||(ctx==HTP_DECODER_DEFAULTS); if(ctx<3 && hit) assert(CFG.decoder_cfgs[c].bestfit_replacement_byte==(unsigned char)v); else assert(CFG.decoder_cfgs[c].bestfit_replacement_byte==OLD.decoder_cfgs[c].bestfit_replacement_byte); OLD.decoder_cfgs[c].bestfit_replacement_byte=CFG.decoder_cfgs[c].bestfit_replacement_byte; } }
    assert(k==18);
    /* nothing else in the decoder configuration changed */
    assert(memcmp(&OLD.decoder_cfgs,&CFG.decoder_cfgs,sizeof CFG.decoder_cfgs)==0);
    VERIF_COVER(ctx==HTP_DECODER_DEFAULTS, "set through DEFAULTS");
    VERIF_WITNESS();
}

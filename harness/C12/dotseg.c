/* C12.dot: htp_normalize_uri_path_inplace == RFC 3986 5.2.4 remove_dot_segments with the pinned
 * deviation (a '/' that only exists as the replacement of a FINAL dot segment is dropped), output never
 * longer, no '.'/'..' segment left, idempotent. */
#include "verif.h"
#include "htp_private.h"
#ifndef N
#define N 6
#endif
/* reference: RFC 3986 5.2.4 on explicit input/output buffers */
static size_t ref_rds(const unsigned char *in, size_t len, unsigned char *out) {
    size_t ip=0, op=0; unsigned char buf[N+1]; size_t bl=len; for(size_t i=0;i<len;i++) buf[i]=in[i];
    while(ip<bl){
        size_t rem=bl-ip; unsigned char *p=buf+ip;
        if(rem>=3 && p[0]=='.'&&p[1]=='.'&&p[2]=='/'){ ip+=3; continue; }                 /* A */
        if(rem>=2 && p[0]=='.'&&p[1]=='/'){ ip+=2; continue; }
        if(rem==3 && p[0]=='/'&&p[1]=='.'&&p[2]=='/'){ ip=bl; continue; }                 /* B, final "/./": the replacement '/' is the last thing in the input: pinned deviation drops it */
        if(rem>=3 && p[0]=='/'&&p[1]=='.'&&p[2]=='/'){ ip+=2; continue; }                 /* B */
        if(rem==2 && p[0]=='/'&&p[1]=='.'){ ip=bl; continue; }                            /* B, final: pinned deviation drops the '/' */
        if(rem==4 && p[0]=='/'&&p[1]=='.'&&p[2]=='.'&&p[3]=='/'){ while(op>0&&out[op-1]!='/') op--; if(op>0) op--; ip=bl; continue; }   /* C, final "/../": same */
        if(rem>=4 && p[0]=='/'&&p[1]=='.'&&p[2]=='.'&&p[3]=='/'){ ip+=3; while(op>0&&out[op-1]!='/') op--; if(op>0) op--; continue; }   /* C */
        if(rem==3 && p[0]=='/'&&p[1]=='.'&&p[2]=='.'){ while(op>0&&out[op-1]!='/') op--; if(op>0) op--; ip=bl; continue; }              /* C, final: same deviation */
        if(rem==1 && p[0]=='.'){ ip=bl; continue; }                                        /* D */
        if(rem==2 && p[0]=='.'&&p[1]=='.'){ ip=bl; continue; }
        out[op++]=p[0]; ip++;                                                              /* E */
        while(ip<bl && buf[ip]!='/') out[op++]=buf[ip++];
    }
    return op;
}
static int has_dot_segment(const unsigned char *d, size_t n){
    size_t s=0;
    for(size_t i=0;i<=N;i++){ if(i>n) break; if(i==n || d[i]=='/'){ size_t l=i-s; if(l==1&&d[s]=='.') return 1; if(l==2&&d[s]=='.'&&d[s+1]=='.') return 1; s=i+1; } }
    return 0;
}
void harness(void){
    size_t len=in_size_le(N);
    bstr *b=bstr_alloc(N); __CPROVER_assume(b!=NULL);
    unsigned char in[N], out[N+1];
    for(size_t i=0;i<N;i++){ in[i]=in_u8();
#ifdef ALPHA
        __CPROVER_assume(in[i]=='/'||in[i]=='.'||in[i]=='a'||in[i]=='b');
#endif
        bstr_ptr(b)[i]=in[i]; }
    bstr_adjust_len(b,len);
    htp_normalize_uri_path_inplace(b);
    size_t rl=ref_rds(in,len,out);
    assert(bstr_len(b)<=len);
    assert(bstr_len(b)==rl);
    for(size_t i=0;i<N;i++) if(i<rl) assert(bstr_ptr(b)[i]==out[i]);
    /* no dot segment survives in an absolute path */
    assert(!has_dot_segment(bstr_ptr(b),bstr_len(b)));
    /* idempotent */
    unsigned char once[N]; size_t ol=bstr_len(b); for(size_t i=0;i<N;i++) if(i<ol) once[i]=bstr_ptr(b)[i];
    htp_normalize_uri_path_inplace(b);
    assert(bstr_len(b)==ol); for(size_t i=0;i<N;i++) if(i<ol) assert(bstr_ptr(b)[i]==once[i]);
    VERIF_COVER(rl+3<=len && rl>0, "segments removed");
    VERIF_WITNESS();
}

/* Reference ("golden") models of the in-place decoders, written token-wise from the documentation in
 * htp_config.h / htp_core.h and pinned against the repository's DecodingTest vectors. No code shared
 * with htp_util.c. */
#ifndef DECMODEL_H
#define DECMODEL_H
#include "htp_private.h"
typedef struct { unsigned char out[16]; size_t n; uint64_t flags; int status; } mres_t;
static const unsigned char MAP[] = { 0x01,0x00,'A',  0xff,0x0f,'/',  0x24,0x00,0x00,  0xff,0x3c,'\\',  0,0,0 };
static int m_hex(unsigned char c){ return (c>='0'&&c<='9')||(c>='a'&&c<='f')||(c>='A'&&c<='F'); }
/* Apache-style nibble conversion, defined for every byte (that is what PROCESS_INVALID exposes) */
static unsigned char m_nib(unsigned char c){ return (unsigned char)(c>='A' ? ((c&0xdf)-'A')+10 : (c-'0')); }
static unsigned char m_byte(const unsigned char *p){ return (unsigned char)(m_nib(p[0])*16+m_nib(p[1])); }
static unsigned char m_lower(unsigned char c){ return (c>='A'&&c<='Z')?(unsigned char)(c+32):c; }
static int m_bestfit(const htp_decoder_cfg_t *d, unsigned hi, unsigned lo, unsigned char *r){
    for(int i=0;i<5;i++){ const unsigned char *p=MAP+3*i; if(p[0]==0&&p[1]==0) return 0; if(p[0]==hi&&p[1]==lo){ *r=p[2]; return 1; } } return 0; }

enum tok { T_RAW, T_PCT_OK, T_PCT_BADHEX, T_PCT_SHORT, T_U_OK, T_U_BADHEX, T_U_SHORT };
/* classify the token that starts at in[i] */
static enum tok m_token(const htp_decoder_cfg_t *d, const unsigned char *in, size_t n, size_t i){
    if(in[i]!='%') return T_RAW;
    size_t avail=n-i;
    if(avail<3) return T_PCT_SHORT;
    if(d->u_encoding_decode && (in[i+1]=='u'||in[i+1]=='U')){
        if(avail<6) return T_U_SHORT;
        return (m_hex(in[i+2])&&m_hex(in[i+3])&&m_hex(in[i+4])&&m_hex(in[i+5])) ? T_U_OK : T_U_BADHEX;
    }
    return (m_hex(in[i+1])&&m_hex(in[i+2])) ? T_PCT_OK : T_PCT_BADHEX;
}
#define M_SET(st,v) do{ if((v)!=HTP_UNWANTED_IGNORE) (st)=(v); }while(0)

/* %uHHHH in the PATH context: value, flags */
static unsigned char m_u_path(const htp_decoder_cfg_t *d, const unsigned char *h, mres_t *r){
    unsigned hi=m_byte(h), lo=m_byte(h+2); unsigned char c=d->bestfit_replacement_byte;
    if(hi==0){ c=(unsigned char)lo; r->flags|=HTP_PATH_OVERLONG_U; }
    else { if(hi==0xff) r->flags|=HTP_PATH_HALF_FULL_RANGE; M_SET(r->status,d->u_encoding_unwanted); m_bestfit(d,hi,lo,&c); }
    if(c=='/'||(d->backslash_convert_slashes&&c=='\\')) r->flags|=HTP_PATH_ENCODED_SEPARATOR;
    return c;
}
static void m_decode_path(const htp_decoder_cfg_t *d, const unsigned char *in, size_t n, int status0, mres_t *r){
    size_t i=0; int prevsep=0; r->n=0; r->flags=0; r->status=status0;
    while(i<n){
        unsigned char c=in[i]; enum tok t=m_token(d,in,n,i); int invalid=0;
        switch(t){
        case T_RAW: if(c==0){ r->flags|=HTP_PATH_RAW_NUL; M_SET(r->status,d->nul_raw_unwanted); if(d->nul_raw_terminates) return; } i++; break;
        case T_PCT_OK: c=m_byte(in+i+1);
            if(c==0){ r->flags|=HTP_PATH_ENCODED_NUL; M_SET(r->status,d->nul_encoded_unwanted); if(d->nul_encoded_terminates) return; }
            if(c=='/'||(d->backslash_convert_slashes&&c=='\\')){ r->flags|=HTP_PATH_ENCODED_SEPARATOR; M_SET(r->status,d->path_separators_encoded_unwanted);
                if(d->path_separators_decode) i+=3; else { c='%'; i++; } }
            else i+=3;
            break;
        case T_U_OK: M_SET(r->status,d->u_encoding_unwanted); c=m_u_path(d,in+i+2,r); i+=6;
            if(c==0){ r->flags|=HTP_PATH_ENCODED_NUL; M_SET(r->status,d->nul_encoded_unwanted); }
            break;
        case T_U_BADHEX: case T_U_SHORT: M_SET(r->status,d->u_encoding_unwanted); invalid=1; break;
        default: invalid=1; break;
        }
        if(invalid){
            r->flags|=HTP_PATH_INVALID_ENCODING; M_SET(r->status,d->url_encoding_invalid_unwanted);
            if(d->url_encoding_invalid_handling==HTP_URL_DECODE_REMOVE_PERCENT){ i++; continue; }
            if(d->url_encoding_invalid_handling==HTP_URL_DECODE_PROCESS_INVALID && t==T_PCT_BADHEX){ c=m_byte(in+i+1); i+=3; }
            else if(d->url_encoding_invalid_handling==HTP_URL_DECODE_PROCESS_INVALID && t==T_U_BADHEX){ c=m_u_path(d,in+i+2,r); i+=6; }
            else { c='%'; i++; }
        }
        if(c<0x20) M_SET(r->status,d->control_chars_unwanted);
        if(c=='\\'&&d->backslash_convert_slashes) c='/';
        if(d->convert_lowercase) c=m_lower(c);
        if(d->path_separators_compress && c=='/'){ if(prevsep) continue; prevsep=1; } else prevsep=0;
        r->out[r->n++]=c;
    }
}

/* generic urldecoder (parameters, userinfo, fragment): htp_urldecode_inplace_ex */
static unsigned char m_u_params(const htp_decoder_cfg_t *d, const unsigned char *h, mres_t *r){
    unsigned hi=m_byte(h), lo=m_byte(h+2); unsigned char c=d->bestfit_replacement_byte;
    if(hi==0){ r->flags|=HTP_URLEN_OVERLONG_U; return (unsigned char)lo; }
    if(hi==0xff && lo<=0xef) r->flags|=HTP_URLEN_HALF_FULL_RANGE;
    m_bestfit(d,hi,lo,&c); return c;
}
static void m_urldecode(const htp_decoder_cfg_t *d, const unsigned char *in, size_t n, int status0, mres_t *r){
    size_t i=0; r->n=0; r->flags=0; r->status=status0;
    while(i<n){
        unsigned char c=in[i]; enum tok t=m_token(d,in,n,i);
        if(t==T_RAW){
            if(c=='+'){ if(d->plusspace_decode) c=' '; }
            else if(c==0){ M_SET(r->status,d->nul_raw_unwanted); r->flags|=HTP_URLEN_RAW_NUL; if(d->nul_raw_terminates) return; }
            i++; r->out[r->n++]=c; continue;
        }
        if(t==T_U_OK||t==T_U_BADHEX||t==T_U_SHORT) M_SET(r->status,d->u_encoding_unwanted);
        if(t==T_PCT_OK){ c=m_byte(in+i+1); i+=3; }
        else if(t==T_U_OK){ c=m_u_params(d,in+i+2,r); i+=6; }
        else {
            r->flags|=HTP_URLEN_INVALID_ENCODING; M_SET(r->status,d->url_encoding_invalid_unwanted);
            if(d->url_encoding_invalid_handling==HTP_URL_DECODE_REMOVE_PERCENT){ i++; continue; }
            if(d->url_encoding_invalid_handling==HTP_URL_DECODE_PROCESS_INVALID && t==T_PCT_BADHEX){ c=m_byte(in+i+1); i+=3; }
            else if(d->url_encoding_invalid_handling==HTP_URL_DECODE_PROCESS_INVALID && t==T_U_BADHEX){ c=m_u_params(d,in+i+2,r); i+=6; }
            else { c='%'; i++; }
        }
        if(c==0){ M_SET(r->status,d->nul_encoded_unwanted); r->flags|=HTP_URLEN_ENCODED_NUL; if(d->nul_encoded_terminates) return; }
        r->out[r->n++]=c;
    }
}
/* every switch of one decoder context symbolic */
static void m_symbolic_cfg(htp_decoder_cfg_t *d){
    d->backslash_convert_slashes=in_bool(); d->convert_lowercase=in_bool(); d->path_separators_compress=in_bool(); d->path_separators_decode=in_bool();
    d->plusspace_decode=in_bool(); d->u_encoding_decode=in_bool(); d->nul_encoded_terminates=in_bool(); d->nul_raw_terminates=in_bool();
    d->url_encoding_invalid_handling=in_range(0,2);
    d->u_encoding_unwanted=in_bool()?HTP_UNWANTED_400:HTP_UNWANTED_IGNORE; d->url_encoding_invalid_unwanted=in_bool()?HTP_UNWANTED_400:HTP_UNWANTED_IGNORE;
    d->nul_encoded_unwanted=in_bool()?HTP_UNWANTED_404:HTP_UNWANTED_IGNORE; d->nul_raw_unwanted=in_bool()?HTP_UNWANTED_400:HTP_UNWANTED_IGNORE;
    d->control_chars_unwanted=in_bool()?HTP_UNWANTED_400:HTP_UNWANTED_IGNORE; d->path_separators_encoded_unwanted=in_bool()?HTP_UNWANTED_404:HTP_UNWANTED_IGNORE;
    d->utf8_invalid_unwanted=in_bool()?HTP_UNWANTED_400:HTP_UNWANTED_IGNORE; d->utf8_convert_bestfit=in_bool();
    d->bestfit_map=(unsigned char*)MAP; d->bestfit_replacement_byte=in_u8();
}
#endif

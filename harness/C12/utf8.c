/* C12.utf8: htp_utf8_decode_path_inplace (best-fit conversion) and htp_utf8_validate_path vs a
 * reference UTF-8 decoder written from the encoding's definition: overlong forms are accepted and
 * flagged, surrogates / > U+10FFFF / stray continuation bytes are invalid. */
#include "verif.h"
#include "decmodel.h"
#ifndef N
#define N 5
#endif
#ifndef KF_MODE_C12_validate_halffull_range
#define KF_MODE_C12_validate_halffull_range 0
#endif
static int cont(unsigned char c){ return (c&0xC0)==0x80; }
/* expected length of the sequence a lead byte announces (0 = cannot start a character) */
static int lead_len(unsigned char c){ if(c<0x80) return 1; if(c>=0xC0&&c<=0xDF) return 2; if(c>=0xE0&&c<=0xEF) return 3; if(c>=0xF0&&c<=0xF4) return 4; return 0; }
/* is byte k (1-based continuation index) acceptable after this lead / previous byte? */
static int cont_ok(unsigned char lead, int k, unsigned char c){ if(!cont(c)) return 0; if(k==1){ if(lead==0xED) return c<=0x9F; if(lead==0xF4) return c<=0x8F; } return 1; }
typedef struct { unsigned char out[N+1]; size_t n; uint64_t flags; int status; } ures_t;
/* mode 1 = decode (replacement byte out, a byte that breaks a sequence is re-read as a new lead),
 * mode 0 = validate (flags only, the breaking byte is skipped) */
static void m_utf8(const htp_decoder_cfg_t *d, const unsigned char *in, size_t n, int mode, int st0, ures_t *r){
    size_t i=0; int seen=0; r->n=0; r->flags=0; r->status=st0;
    while(i<n){
        unsigned char c=in[i]; int L=lead_len(c);
        if(L==1){ r->out[r->n++]=c; i++; continue; }
        int bad=0; size_t used=1; uint32_t cp=0;
        if(L==0) bad=1;
        else { cp=c&(0xFF>>(L+1)); for(int k=1;k<L;k++){ if(i+k>=n){ /* truncated at end of input: nothing more is decided */ used=n-i; bad=2; break; } if(!cont_ok(c,k,in[i+k])){ bad=1; used=(size_t)k+1; break; } cp=(cp<<6)|(in[i+k]&0x3F); used=(size_t)k+1; } }
        if(bad==2){ i=n; break; }
        if(bad){ r->flags|=HTP_PATH_UTF8_INVALID;
            if(mode){ M_SET(r->status,d->utf8_invalid_unwanted); r->out[r->n++]=d->bestfit_replacement_byte; i+= (used==1)?1:used-1; }
            else i+=used;
            continue; }
        seen=1;
        if((L==2&&cp<0x80)||(L==3&&cp<0x800)||(L==4&&cp<0x10000)) r->flags|=HTP_PATH_UTF8_OVERLONG;
        if(cp>=0xFF00&&cp<=0xFFEF) r->flags|=HTP_PATH_HALF_FULL_RANGE;
        if(mode){ unsigned char o=d->bestfit_replacement_byte; if(cp<0x100) o=(unsigned char)cp; else if(cp<=0xFFFF) m_bestfit(d,cp>>8,cp&0xFF,&o); r->out[r->n++]=o; }
        i+=L;
    }
    if(seen && !(r->flags&HTP_PATH_UTF8_INVALID)) r->flags|=HTP_PATH_UTF8_VALID;
}
void harness(void){
    static htp_cfg_t CFG; static htp_tx_t TX; TX.cfg=&CFG;
    htp_decoder_cfg_t *d=&CFG.decoder_cfgs[HTP_DECODER_URL_PATH]; m_symbolic_cfg(d);
    size_t len=in_size_le(N); unsigned char raw[N];
    bstr *b=bstr_alloc(N); __CPROVER_assume(b);
    for(size_t i=0;i<N;i++){ raw[i]=in_u8(); bstr_ptr(b)[i]=raw[i]; }
    bstr_adjust_len(b,len);
    int st0=in_bool()?0:200; TX.response_status_expected_number=st0;
    ures_t m;
#if MODE==1
    m_utf8(d,raw,len,1,st0,&m);
    unsigned char map0[sizeof MAP]; for(size_t i=0;i<sizeof MAP;i++) map0[i]=MAP[i];
    static htp_cfg_t CFG0; CFG0=CFG;
    htp_utf8_decode_path_inplace(&CFG,&TX,b);
    /* C19: the best-fit map and the configuration are shared by every parser created from it and are never written while parsing */
    for(size_t i=0;i<sizeof MAP;i++) assert(MAP[i]==map0[i]);
    assert(memcmp(&CFG0,&CFG,sizeof CFG)==0);
    assert(bstr_len(b)<=len); assert(bstr_len(b)==m.n);
    for(size_t i=0;i<N;i++) if(i<m.n) assert(bstr_ptr(b)[i]==m.out[i]);
    assert(TX.flags==m.flags); assert(TX.response_status_expected_number==m.status);
    VERIF_COVER(m.n+3==len && (m.flags&HTP_PATH_UTF8_OVERLONG), "4-byte overlong converted");
#else
    m_utf8(d,raw,len,0,st0,&m);
    /* known finding: validate mode raises HALF_FULL_RANGE for U+FFF0..U+FFFF as well */
    { int kf=0; for(size_t i=0;i+2<N;i++) if(i+2<len && raw[i]==0xEF && raw[i+1]==0xBF && raw[i+2]>=0xB0 && raw[i+2]<=0xBF) kf=1;
      for(size_t i=0;i+3<N;i++) if(i+3<len && raw[i]==0xF0 && raw[i+1]==0x8F && raw[i+2]==0xBF && raw[i+3]>=0xB0 && raw[i+3]<=0xBF) kf=1;
      KF_GATE(KF_MODE_C12_validate_halffull_range, kf); }
    htp_utf8_validate_path(&TX,b);
    assert(bstr_len(b)==len); for(size_t i=0;i<N;i++) assert(bstr_ptr(b)[i]==raw[i]);
    assert(TX.flags==m.flags); assert(TX.response_status_expected_number==st0);
#endif
    VERIF_COVER((m.flags&HTP_PATH_HALF_FULL_RANGE)!=0, "full-width code point");
    VERIF_COVER((m.flags&HTP_PATH_UTF8_VALID)&&(m.flags&HTP_PATH_UTF8_OVERLONG), "valid and overlong");
    VERIF_WITNESS();
}

/* C12.url: public htp_urldecode_inplace_ex (context symbolic) vs the reference model */
#include "verif.h"
#include "decmodel.h"
#ifndef N
#define N 6
#endif
void harness(void){
    static htp_cfg_t CFG;
    unsigned ctx=in_range(HTP_DECODER_DEFAULTS,HTP_DECODER_URL_PATH);
    htp_decoder_cfg_t *d=&CFG.decoder_cfgs[ctx]; m_symbolic_cfg(d);
    size_t len=in_size_le(N); unsigned char raw[N];
    bstr *b=bstr_alloc(N); __CPROVER_assume(b);
    for(size_t i=0;i<N;i++){ raw[i]=in_u8();
#ifdef ALPHA
        { unsigned char c=raw[i]; __CPROVER_assume(c=='%'||c=='u'||c=='U'||c=='0'||c=='2'||c=='f'||c=='F'||c=='g'||c=='+'||c==0||c=='a'||c=='='||c=='&'||c=='4'||c=='1'); }
#endif
        bstr_ptr(b)[i]=raw[i]; }
    bstr_adjust_len(b,len);
    int st0=in_bool()?0:200, st=st0; uint64_t fl=0;
    mres_t m; m_urldecode(d,raw,len,st0,&m);
    htp_status_t rc=htp_urldecode_inplace_ex(&CFG,ctx,b,&fl,&st);
    assert(rc==HTP_OK);
    assert(bstr_len(b)<=len); assert(bstr_len(b)==m.n);
    for(size_t i=0;i<N;i++) if(i<m.n) assert(bstr_ptr(b)[i]==m.out[i]);
    assert(fl==m.flags); assert(st==m.status);
    VERIF_COVER((m.flags&HTP_URLEN_HALF_FULL_RANGE)!=0, "full-width %u");
    VERIF_COVER((m.flags&HTP_URLEN_ENCODED_NUL) && m.n+3<=len, "encoded NUL terminates");
    VERIF_WITNESS();
}

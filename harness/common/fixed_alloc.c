/* fixed-capacity model of bstr_alloc/bstr_expand: every bstr is a heap object of constant size
 * sizeof(bstr)+FA_CAP; the `size` field still carries the requested length, so the real code's
 * own capacity logic (bstr_add_mem growth etc.) is exercised unchanged. Requests beyond FA_CAP are
 * outside the bound (assume). */
#include "verif.h"
#include "bstr.h"
#ifndef FA_CAP
#define FA_CAP 16
#endif
bstr *bstr_alloc(size_t len){ __CPROVER_assume(len<=FA_CAP); bstr *b=malloc(sizeof(bstr)+FA_CAP); __CPROVER_assume(b!=NULL); b->len=0; b->size=len; b->realptr=NULL; return b; }
bstr *bstr_expand(bstr *b, size_t newsize){ if(b->realptr!=NULL) return NULL; if(b->size>newsize) return NULL; __CPROVER_assume(newsize<=FA_CAP); b->size=newsize; return b; }

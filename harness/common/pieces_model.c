/* flat model of htp_list_array_t + bstr_builder_t for harnesses whose subject is a CLIENT of these containers (the multipart matcher
 * and part handler): one constant-size object per list, no allocation per element.
 *  - a plain list keeps up to PM_NE pointers (push / get / size / pop / clear);
 *  - a builder's list keeps up to PM_NP fixed-capacity pieces, individually visible through htp_list_get(bb->pieces, i), which is
 *    what htp_martp_process_aside reads.
 * The real htp_list.c and bstr_builder.c are the subject of C17 (list.*, builder.*). More elements / longer pieces than the
 * capacities are outside the bound (assume). */
#include "verif.h"
#include "htp_private.h"
#ifndef PM_NP
#define PM_NP 6
#endif
#ifndef PM_CAP
#define PM_CAP 8
#endif
#ifndef PM_NE
#define PM_NE 4
#endif
typedef struct { bstr h; unsigned char d[PM_CAP]; } pm_piece_t;
typedef struct { int pieces; size_t n; void *e[PM_NE]; pm_piece_t p[PM_NP]; } pm_t;
#define PM(l) ((pm_t*)(l))
htp_list_t *htp_list_array_create(size_t size){ pm_t *m=calloc(1,sizeof(pm_t)); __CPROVER_assume(m); return (htp_list_t*)m; }
void htp_list_array_destroy(htp_list_t *l){ free(l); }
void htp_list_array_clear(htp_list_t *l){ if(l) PM(l)->n=0; }
size_t htp_list_array_size(const htp_list_t *l){ if(!l) return (size_t)-1; return PM(l)->n; }
void *htp_list_array_get(const htp_list_t *l, size_t idx){ if(!l) return NULL; pm_t *m=PM(l); if(idx>=m->n) return NULL; if(m->pieces){ __CPROVER_assume(idx<PM_NP); return &m->p[idx].h; } __CPROVER_assume(idx<PM_NE); return m->e[idx]; }
htp_status_t htp_list_array_push(htp_list_t *l, void *e){ if(!l) return HTP_ERROR; pm_t *m=PM(l); __CPROVER_assume(!m->pieces && m->n<PM_NE); m->e[m->n++]=e; return HTP_OK; }
void *htp_list_array_pop(htp_list_t *l){ if(!l) return NULL; pm_t *m=PM(l); if(m->n==0) return NULL; m->n--; return m->e[m->n]; }
bstr_builder_t *bstr_builder_create(void){ bstr_builder_t *bb=calloc(1,sizeof(bstr_builder_t)); __CPROVER_assume(bb); bb->pieces=htp_list_array_create(16); PM(bb->pieces)->pieces=1; return bb; }
size_t bstr_builder_size(const bstr_builder_t *bb){ return PM(bb->pieces)->n; }
htp_status_t bstr_builder_append_mem(bstr_builder_t *bb, const void *data, size_t len){ pm_t *m=PM(bb->pieces);
    __CPROVER_assume(m->n<PM_NP); __CPROVER_assume(len<=PM_CAP);
#ifndef VERIF_NATIVE
    __CPROVER_assert(len==0 || __CPROVER_r_ok(data,len), "appended piece is readable");
#endif
    pm_piece_t *q=&m->p[m->n]; const unsigned char *s=data; for(size_t i=0;i<PM_CAP;i++) if(i<len) q->d[i]=s[i];
    q->h.len=len; q->h.size=len; q->h.realptr=NULL; m->n++; return HTP_OK; }
htp_status_t bstr_builder_append_c(bstr_builder_t *bb, const char *c){ return bstr_builder_append_mem(bb,c,strlen(c)); }
void bstr_builder_clear(bstr_builder_t *bb){ PM(bb->pieces)->n=0; }
void bstr_builder_destroy(bstr_builder_t *bb){ if(!bb) return; free(bb->pieces); free(bb); }
bstr *bstr_builder_to_str(const bstr_builder_t *bb){ pm_t *m=PM(bb->pieces); size_t len=0;
    for(size_t i=0;i<PM_NP;i++) if(i<m->n) len+=m->p[i].h.len;
    bstr *b=bstr_alloc(len); if(!b) return NULL; size_t k=0;
    for(size_t i=0;i<PM_NP;i++) if(i<m->n) for(size_t j=0;j<PM_CAP;j++) if(j<m->p[i].h.len) bstr_ptr(b)[k++]=m->p[i].d[j];
    bstr_adjust_len(b,len); return b; }

/* byte-loop model of memcpy / memmove for harnesses where the CONTENT of copied buffers must stay visible to symbolic execution
 * (CBMC's built-in model copies arrays as opaque array expressions, which makes every later byte comparison symbolic and forces
 * all parsing loops to their bounds). Goto build only; the native twin uses libc. */
#ifndef VERIF_NATIVE
#include <stddef.h>
void *memcpy(void *d, const void *s, size_t n){ unsigned char *dd=d; const unsigned char *ss=s; for(size_t i=0;i<n;i++) dd[i]=ss[i]; return d; }
#endif

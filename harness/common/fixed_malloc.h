/* fixed-size malloc/realloc for unity-included stream-layer units (in_buf/out_buf) */
#ifndef FIXED_MALLOC_H
#define FIXED_MALLOC_H
#include <stdlib.h>
#include "verif.h"
#ifndef FM_CAP
#define FM_CAP 16
#endif
static inline void *verif_fixed_malloc(size_t n){ __CPROVER_assume(n<=FM_CAP); void *p=malloc(FM_CAP); __CPROVER_assume(p!=NULL); return p; }
static inline void *verif_fixed_realloc(void *p, size_t n){ __CPROVER_assume(n<=FM_CAP); if(p==NULL){ p=malloc(FM_CAP); __CPROVER_assume(p!=NULL);} return p; }
#endif

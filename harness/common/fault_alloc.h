/* single-fault allocator: force-included into real units (-include). The allocation whose ordinal
 * equals verif_fail_at returns NULL; every other allocation succeeds. */
#ifndef FAULT_ALLOC_H
#define FAULT_ALLOC_H
#include <stdlib.h>
#include <string.h>
#ifdef VERIF_NATIVE
#define VERIF_FA_ASSUME(c) do{ if(!(c)) exit(77);}while(0)
#else
#define VERIF_FA_ASSUME(c) __CPROVER_assume(c)
#endif
extern unsigned verif_alloc_n, verif_fail_at;
static inline int verif_fail(void){ return verif_alloc_n++ == verif_fail_at; }
static inline void *verif_malloc(size_t n){ if(verif_fail()) return NULL; void *p=malloc(n); VERIF_FA_ASSUME(p!=NULL); return p; }
static inline void *verif_calloc(size_t a, size_t b){ if(verif_fail()) return NULL; void *p=calloc(a,b); VERIF_FA_ASSUME(p!=NULL); return p; }
static inline void *verif_realloc(void *q, size_t n){ if(verif_fail()) return NULL; void *p=realloc(q,n); VERIF_FA_ASSUME(p!=NULL); return p; }
static inline char *verif_strdup(const char *s){ if(verif_fail()) return NULL; size_t n=strlen(s)+1; char *p=malloc(n); VERIF_FA_ASSUME(p!=NULL); memcpy(p,s,n); return p; }
#define malloc verif_malloc
#define calloc verif_calloc
#define realloc verif_realloc
#undef strdup
#define strdup verif_strdup
#endif

/* abstract model of bstr_builder_t: a flat byte buffer plus a piece counter (the real bstr_builder.c keeps a list
 * of bstrs; bstr_builder_to_str concatenates them). Used where a client of the builder is the subject. */
#include "verif.h"
#include "htp_private.h"
#ifndef BB_CAP
#define BB_CAP 16
#endif
typedef struct { unsigned char buf[BB_CAP]; size_t len; size_t pieces; } bbm_t;
#define BBM(bb) ((bbm_t*)(bb)->pieces)
bstr_builder_t *bstr_builder_create(void){ bstr_builder_t *bb=malloc(sizeof(bstr_builder_t)); __CPROVER_assume(bb); bbm_t *m=calloc(1,sizeof(bbm_t)); __CPROVER_assume(m); bb->pieces=(htp_list_t*)m; return bb; }
size_t bstr_builder_size(const bstr_builder_t *bb){ return BBM(bb)->pieces; }
htp_status_t bstr_builder_append_mem(bstr_builder_t *bb, const void *data, size_t len){ bbm_t *m=BBM(bb); __CPROVER_assume(m->len+len<=BB_CAP); const unsigned char *p=data; for(size_t i=0;i<len;i++) m->buf[m->len+i]=p[i]; m->len+=len; m->pieces++; return HTP_OK; }
htp_status_t bstr_builder_append_c(bstr_builder_t *bb, const char *c){ return bstr_builder_append_mem(bb,c,strlen(c)); }
void bstr_builder_clear(bstr_builder_t *bb){ BBM(bb)->len=0; BBM(bb)->pieces=0; }
void bstr_builder_destroy(bstr_builder_t *bb){ if(!bb) return; free(bb->pieces); free(bb); }
bstr *bstr_builder_to_str(const bstr_builder_t *bb){ bbm_t *m=BBM(bb); bstr *b=bstr_alloc(m->len); if(!b) return NULL; for(size_t i=0;i<m->len;i++) bstr_ptr(b)[i]=m->buf[i]; bstr_adjust_len(b,m->len); return b; }

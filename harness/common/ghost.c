/* ghost variable holding the last harness input (goto build) */
unsigned long long verif_in;

/* htp_log is formatting + allocation and never the subject: body only bumps a ghost counter */
#include "htp_private.h"
unsigned verif_nlog;
void htp_log(htp_connp_t *connp, const char *file, int line, enum htp_log_level_t level, int code, const char *fmt, ...) { (void)connp;(void)file;(void)line;(void)level;(void)code;(void)fmt; verif_nlog++; }

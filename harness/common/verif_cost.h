#ifndef VERIF_COST_H
#define VERIF_COST_H
#include <stdio.h>
#include <stdlib.h>
#include <string.h>
#include <ctype.h>
#include <stdint.h>
#include <inttypes.h>
#include <stdarg.h>
#include <unistd.h>
#include <errno.h>
#include <iconv.h>
#include <sys/types.h>
#include <sys/stat.h>
#include <sys/time.h>
#include <sys/socket.h>
#include <netinet/in.h>
#include <arpa/inet.h>
#include <zlib.h>
extern unsigned long verif_cost;
#define while(c) while (verif_cost++, (c))
#define for(...) for(__VA_ARGS__) if (verif_cost++, 1)
#endif

/* variant of fixed_alloc.c: the string bytes live in their own plain byte object (b->realptr), so that byte values written through
 * memcpy-style loops stay visible to symbolic execution (bytes stored behind the struct header of one malloc object are read back
 * as byte_extract expressions and defeat constant propagation). The library supports external storage through realptr; bstr_expand
 * on such a string is declined by the real code, so the model grows in place within FA_CAP like fixed_alloc.c. The data object of a
 * freed string is not released (no leak check in the obligations that use this model). */
#include "verif.h"
#include "bstr.h"
#ifndef FA_CAP
#define FA_CAP 16
#endif
bstr *bstr_alloc(size_t len){ __CPROVER_assume(len<=FA_CAP); bstr *b=malloc(sizeof(bstr)); __CPROVER_assume(b!=NULL); unsigned char *d=malloc(FA_CAP); __CPROVER_assume(d!=NULL);
    b->len=0; b->size=len; b->realptr=d; return b; }
bstr *bstr_expand(bstr *b, size_t newsize){ if(b->size>newsize) return NULL; __CPROVER_assume(newsize<=FA_CAP); b->size=newsize; return b; }

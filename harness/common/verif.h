/* Common harness vocabulary.  One source, two builds:
 *   goto-cc            : inputs are nondet_*(), assume/assert are CBMC's
 *   gcc -DVERIF_NATIVE : inputs are read from $VERIF_REPLAY (one integer per input, in call
 *                        order), assume(false) -> exit 77, assert(false) -> exit 10
 * Every harness input goes through in_*(), which also stores the value into the ghost
 * `verif_in`; the replay file is the sequence of assignments to `verif_in` in the trace. */
#ifndef VERIF_H
#define VERIF_H
#include <stddef.h>
#include <stdint.h>
#include <stdlib.h>
#include <string.h>

extern unsigned long long verif_in;

#ifdef VERIF_NATIVE
#include <stdio.h>
unsigned long long verif_native_next(void);
#define VERIF_ND_U8()   ((unsigned char)verif_native_next())
#define VERIF_ND_UINT() ((unsigned)verif_native_next())
#define VERIF_ND_ULL()  ((unsigned long long)verif_native_next())
#define __CPROVER_assume(c) do{ if(!(c)){ fprintf(stderr,"ASSUME-FALSE %s:%d %s\n",__FILE__,__LINE__,#c); exit(77);} }while(0)
#undef assert
#define assert(c) do{ if(!(c)){ fprintf(stderr,"ASSERT-FAIL %s:%d %s\n",__FILE__,__LINE__,#c); fflush(stderr); _exit(10);} }while(0)
#include <unistd.h>
#define __CPROVER_assert(c,msg) do{ }while(0)
#define __CPROVER_r_ok(p,n) 1
#define __CPROVER_w_ok(p,n) 1
#define VERIF_WITNESS() do{ }while(0)
#define VERIF_COVER(c,name) do{ (void)(c); }while(0)
#else
#include <assert.h>
unsigned char nondet_uchar(void);
unsigned nondet_uint(void);
unsigned long long nondet_ull(void);
#define VERIF_ND_U8()   nondet_uchar()
#define VERIF_ND_UINT() nondet_uint()
#define VERIF_ND_ULL()  nondet_ull()
/* reachability witness: this assertion MUST come back violated, otherwise the harness is vacuous */
#define VERIF_WITNESS() __CPROVER_assert(0, "VERIF_WITNESS end of harness reachable")
/* cover goal: must come back violated (= some input reaches the condition) */
#define VERIF_COVER(c,name) __CPROVER_assert(!(c), "VERIF_COVER " name)
#endif

static inline unsigned char in_u8(void){ unsigned char v=VERIF_ND_U8(); verif_in=v; return v; }
static inline unsigned in_uint(void){ unsigned v=VERIF_ND_UINT(); verif_in=v; return v; }
static inline unsigned long long in_ull(void){ unsigned long long v=VERIF_ND_ULL(); verif_in=v; return v; }
static inline size_t in_size(void){ return (size_t)in_ull(); }
static inline int in_int(void){ return (int)in_uint(); }
static inline unsigned in_bool(void){ return in_u8()&1u; }
/* value in [lo,hi] */
static inline unsigned in_range(unsigned lo, unsigned hi){ unsigned v=in_uint(); __CPROVER_assume(v>=lo && v<=hi); return v; }
static inline size_t in_size_le(size_t hi){ size_t v=in_size(); __CPROVER_assume(v<=hi); return v; }

/* known-finding gate: mode 0 = plain, 1 = exclude the finding's input class, 2 = restrict to it */
#define KF_GATE(mode,pred) do{ if((mode)==1) __CPROVER_assume(!(pred)); else if((mode)==2) __CPROVER_assume(pred); }while(0)

#endif

/* models of libc functions CBMC has no body for (goto build only) */
#ifndef VERIF_NATIVE
#include <stddef.h>
extern unsigned long verif_cost;
void *memchr(const void *s, int c, size_t n){ const unsigned char *p=s; for(size_t i=0;i<n;i++) if(p[i]==(unsigned char)c) return (void*)(p+i); return NULL; }
#endif

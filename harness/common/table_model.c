/* abstract model of htp_table_t (insertion-ordered multimap, first case-insensitive match wins) over flat
 * arrays; the real htp_table.c is verified against exactly this abstraction in C17 (table.* obligations).
 * Used where a client of the table (header processing) is the subject. */
#include "verif.h"
#include "htp_private.h"
#ifndef TM_MAXP
#define TM_MAXP 4
#endif
typedef struct { const bstr *k[TM_MAXP]; const void *v[TM_MAXP]; size_t n; int copied; } tm_t;
#define TM(t) ((tm_t*)(t)->list.elements)
htp_table_t *htp_table_create(size_t size){ htp_table_t *t=calloc(1,sizeof(htp_table_t)); __CPROVER_assume(t); tm_t *m=calloc(1,sizeof(tm_t)); __CPROVER_assume(m); t->list.elements=(void**)m; return t; }
static htp_status_t tadd(htp_table_t *t,const bstr *k,const void *v){ tm_t *m=TM(t); __CPROVER_assume(m->n<TM_MAXP); m->k[m->n]=k; m->v[m->n]=v; m->n++; return HTP_OK; }
htp_status_t htp_table_add(htp_table_t *t,const bstr *k,const void *v){ if(!t||!k) return HTP_ERROR; bstr *d=bstr_dup(k); if(!d) return HTP_ERROR; TM(t)->copied=1; return tadd(t,d,v); }
htp_status_t htp_table_addn(htp_table_t *t,const bstr *k,const void *v){ if(!t||!k) return HTP_ERROR; return tadd(t,k,v); }
htp_status_t htp_table_addk(htp_table_t *t,const bstr *k,const void *v){ if(!t||!k) return HTP_ERROR; return tadd(t,k,v); }
size_t htp_table_size(const htp_table_t *t){ if(!t) return 0; return TM(t)->n; }
void *htp_table_get_index(const htp_table_t *t,size_t idx,bstr **key){ if(!t) return NULL; tm_t *m=TM(t); if(idx>=m->n) return NULL; if(key) *key=(bstr*)m->k[idx]; return (void*)m->v[idx]; }
void *htp_table_get(const htp_table_t *t,const bstr *key){ if(!t||!key) return NULL; tm_t *m=TM(t); for(size_t i=0;i<TM_MAXP;i++) if(i<m->n && bstr_cmp_nocase(m->k[i],key)==0) return (void*)m->v[i]; return NULL; }
void *htp_table_get_c(const htp_table_t *t,const char *ckey){ if(!t||!ckey) return NULL; tm_t *m=TM(t); for(size_t i=0;i<TM_MAXP;i++) if(i<m->n && bstr_cmp_c_nocasenorzero(m->k[i],ckey)==0) return (void*)m->v[i]; return NULL; }
void *htp_table_get_mem(const htp_table_t *t,const void *key,size_t len){ if(!t||!key) return NULL; tm_t *m=TM(t); for(size_t i=0;i<TM_MAXP;i++) if(i<m->n && bstr_cmp_mem_nocase(m->k[i],key,len)==0) return (void*)m->v[i]; return NULL; }
void htp_table_clear(htp_table_t *t){ if(!t) return; tm_t *m=TM(t); if(m->copied) for(size_t i=0;i<TM_MAXP;i++) if(i<m->n) bstr_free((bstr*)m->k[i]); m->n=0; }
void htp_table_clear_ex(htp_table_t *t){ if(!t) return; TM(t)->n=0; }
void htp_table_destroy(htp_table_t *t){ if(!t) return; htp_table_clear(t); free(t->list.elements); free(t); }
void htp_table_destroy_ex(htp_table_t *t){ if(!t) return; free(t->list.elements); free(t); }

/* native replay driver: runs the same harness() against natively compiled real units */
#include <stdio.h>
#include <stdlib.h>
unsigned long long verif_in;
static FILE *vf;
unsigned long long verif_native_next(void){
    if(!vf){ const char *p=getenv("VERIF_REPLAY"); vf=p?fopen(p,"r"):NULL; if(!vf){ perror("VERIF_REPLAY"); exit(2);} }
    unsigned long long v=0;
    if(fscanf(vf,"%llu",&v)!=1){ fprintf(stderr,"REPLAY-OUT-OF-VALUES\n"); exit(78); }
    return v;
}
void harness(void);
int main(void){ harness(); fprintf(stderr,"REPLAY-COMPLETED-NO-FAILURE\n"); return 0; }

/* C13.4: port range check in htp_normalize_parsed_uri: port_number is the decimal value of the port
 * text when in 1..65535 and -1 + HTP_HOSTU_INVALID otherwise. Only the port component is set. */
#include "verif.h"
#include "htp_private.h"
#ifndef N
#define N 7
#endif
static long ref_port(const unsigned char *d, size_t n){
    size_t i=0; while(i<n && (d[i]==' '||d[i]=='\t')) i++;
    if(i==n) return -1;
    if(!(d[i]>='0'&&d[i]<='9')) return -1;
    long v=0; while(i<n && d[i]>='0'&&d[i]<='9'){ v=v*10+(d[i]-'0'); if(v>(1L<<20)) v=(1L<<20); i++; }
    while(i<n){ if(!(d[i]==' '||d[i]=='\t')) return -1; i++; }
    return v;
}
void harness(void){
    static htp_cfg_t CFG; static htp_tx_t TX; static htp_connp_t C; TX.cfg=&CFG; TX.connp=&C; C.cfg=&CFG; C.in_tx=&TX;
    static htp_uri_t inc, norm;
    bstr *p=bstr_alloc(N); __CPROVER_assume(p!=NULL);
    size_t len=in_size_le(N); unsigned char raw[N];
    for(size_t i=0;i<N;i++){ raw[i]=in_u8();
#ifdef DIGITS
        __CPROVER_assume(raw[i]>='0'&&raw[i]<='9');
#endif
        bstr_ptr(p)[i]=raw[i]; }
    bstr_adjust_len(p,len);
    inc.port=p;
    htp_status_t rc=htp_normalize_parsed_uri(&TX,&inc,&norm);
    assert(rc==HTP_OK);
    long v=ref_port(raw,len);
    if(v>=1&&v<=65535){ assert(norm.port_number==(int)v); assert(!(TX.flags&HTP_HOSTU_INVALID)); }
    else { assert(norm.port_number==-1); assert(TX.flags&HTP_HOSTU_INVALID); }
    VERIF_COVER(norm.port_number==65535, "port 65535");
    VERIF_WITNESS();
}

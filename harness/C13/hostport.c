/* C13.3: htp_parse_hostport (CONNECT targets / Host header) on a symbolic authority: host and port
 * are contiguous substrings of the trimmed input separated by ':' (LWS before the colon dropped),
 * and port_number is the decimal value of the port text iff it is in 1..65535, else -1+invalid. */
#include "verif.h"
#include "htp_private.h"
#ifndef N
#define N 7
#endif
static int is_ws(unsigned char c){ return c==' '||c=='\t'||c=='\n'||c=='\v'||c=='\f'||c=='\r'; }
static int lc(int c){ return (c>='A'&&c<='Z')?c+32:c; }
/* reference: LWS* digits+ LWS* -> value (saturating at 1<<20), else -1 */
static long ref_port(const unsigned char *d, size_t n){
    size_t i=0; while(i<n && (d[i]==' '||d[i]=='\t')) i++;
    if(i==n) return -1;
    if(!(d[i]>='0'&&d[i]<='9')) return -1;
    long v=0; while(i<n && d[i]>='0'&&d[i]<='9'){ v=v*10+(d[i]-'0'); if(v>(1L<<20)) v=(1L<<20); i++; }
    while(i<n){ if(!(d[i]==' '||d[i]=='\t')) return -1; i++; }
    return v;
}
void harness(void){
    bstr *in=bstr_alloc(N); __CPROVER_assume(in!=NULL);
    size_t len=in_size_le(N);
    unsigned char raw[N];
    for(size_t i=0;i<N;i++){ unsigned char c=in_u8(); raw[i]=c; bstr_ptr(in)[i]=c; }
    bstr_adjust_len(in,len);
    bstr *host=NULL,*port=NULL; int pn=0, inv=-1;
    htp_status_t rc=htp_parse_hostport(in,&host,&port,&pn,&inv);
    assert(rc==HTP_OK); assert(inv==0||inv==1);
    size_t s=0,e=len; while(s<e && is_ws(raw[s])) s++; while(e>s && is_ws(raw[e-1])) e--;
    if(s==e){ assert(host==NULL && port==NULL && inv==1 && pn==-1); }
    if(host){
        size_t hl=bstr_len(host); assert(hl<=e-s);
        for(size_t i=0;i<N;i++) if(i<hl) assert(lc(bstr_ptr(host)[i])==lc(raw[s+i]));
        size_t p=s+hl;
        if(port){
            while(p<e && is_ws(raw[p])) p++;
            assert(p<e && raw[p]==':'); p++;
            size_t pl=bstr_len(port); assert(p+pl==e);
            for(size_t i=0;i<N;i++) if(i<pl) assert(bstr_ptr(port)[i]==raw[p+i]);
            long v=ref_port(raw+p,pl);
            if(v>=1 && v<=65535){ assert(pn==(int)v); assert(inv==0); } else { assert(pn==-1); assert(inv==1); }
        } else {
            assert(pn==-1);
            if(!inv) assert(p==e);   /* nothing dropped unless flagged invalid */
        }
    } else assert(port==NULL && inv==1);
    VERIF_COVER(host && port && pn>0, "host with valid port");
    VERIF_COVER(host && bstr_len(host)>0 && bstr_ptr(host)[0]=='[' && port, "ipv6 with port");
    VERIF_WITNESS();
}

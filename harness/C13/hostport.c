/* C13.3: htp_parse_hostport (CONNECT targets / Host header) on a symbolic authority: host and port
 * are contiguous substrings of the trimmed input separated by ':' (LWS before the colon dropped),
 * and port_number is the decimal value of the port text iff it is in 1..65535, else -1+invalid. */
#include "verif.h"
#include "htp_private.h"
#ifndef N
#define N 7
#endif
static int is_ws(unsigned char c){ return c==' '||c=='\t'||c=='\n'||c=='\v'||c=='\f'||c=='\r'; }
static int lc(int c){ return (c>='A'&&c<='Z')?c+32:c; }
/* reference: LWS* digits+ LWS* -> value (saturating at 1<<20), else -1 */
static long ref_port(const unsigned char *d, size_t n){
    size_t i=0; while(i<n && (d[i]==' '||d[i]=='\t')) i++;
    if(i==n) return -1;
    if(!(d[i]>='0'&&d[i]<='9')) return -1;
    long v=0; while(i<n && d[i]>='0'&&d[i]<='9'){ v=v*10+(d[i]-'0'); if(v>(1L<<20)) v=(1L<<20); i++; }
    while(i<n){ if(!(d[i]==' '||d[i]=='\t')) return -1; i++; }
    return v;
}
void harness(void){
    bstr *in=bstr_alloc(N); __CPROVER_assume(in!=NULL);
    size_t len=in_size_le(N);
    unsigned char raw[N];
    for(size_t i=0;i<N;i++){ unsigned char c=in_u8();
#ifdef PORTDIGITS
        /* "a:" followed by digits only: ports around 2^16, 2^31, 2^32, 2^63 */
        if(i==0) __CPROVER_assume(c=='a'); else if(i==1) __CPROVER_assume(c==':'); else __CPROVER_assume(c>='0'&&c<='9');
#endif
        raw[i]=c; bstr_ptr(in)[i]=c; }
    bstr_adjust_len(in,len);
    bstr *host=NULL,*port=NULL; int pn=0, inv=-1;
    htp_status_t rc=htp_parse_hostport(in,&host,&port,&pn,&inv);
    assert(rc==HTP_OK); assert(inv==0||inv==1);
    size_t s=0,e=len; while(s<e && is_ws(raw[s])) s++; while(e>s && is_ws(raw[e-1])) e--;
    /* exact reference split, written from the function's documentation */
    int xh=0, xp=0, xinv=0; size_t hs=s, he=s, ps=0, pe=0;   /* expected: host present / port present / invalid, [hs,he) [ps,pe) */
    if(s==e){ xinv=1; }
    else if(raw[s]=='['){ size_t j=s; while(j<e && raw[j]!=']') j++;
        if(j==e){ xinv=1; }
        else { xh=1; he=j+1; if(j+1==e){ } else if(raw[j+1]==':'){ xp=1; ps=j+2; pe=e; } else xinv=1; } }
    else { size_t c=s; while(c<e && raw[c]!=':') c++;
        xh=1; if(c==e){ he=e; } else { he=c; while(he>s && is_ws(raw[he-1])) he--; xp=1; ps=c+1; pe=e; } }
    assert((host!=NULL)==xh); assert((port!=NULL)==xp);
    if(xh){ assert(bstr_len(host)==he-hs); for(size_t i=0;i<N;i++) if(i<he-hs) assert(lc(bstr_ptr(host)[i])==lc(raw[hs+i])); }
    if(xp){ assert(bstr_len(port)==pe-ps); for(size_t i=0;i<N;i++) if(i<pe-ps) assert(bstr_ptr(port)[i]==raw[ps+i]);
        long v=ref_port(raw+ps,pe-ps);
        if(v>=1 && v<=65535){ assert(pn==(int)v); assert(inv==xinv); } else { assert(pn==-1); assert(inv==1); } }
    else { assert(pn==-1); assert(inv==xinv); }
    VERIF_COVER(host && port && pn>0, "host with valid port");
    VERIF_COVER(host && bstr_len(host)>0 && bstr_ptr(host)[0]=='[' && port, "ipv6 with port");
    VERIF_WITNESS();
}

/* C13.1/.2: htp_parse_uri partitions the target: re-joining the raw components with their
 * delimiters reproduces the target minus trailing spaces; a target starting with '/' gets no
 * scheme/authority. Real: htp_parse_uri + bstr_dup_mem (bstr.c). Model: fixed-capacity bstr_alloc. */
#include "verif.h"
#include "htp_private.h"
#ifndef N
#define N 7
#endif
#ifndef KF_MODE_C13_ipv6_tail
#define KF_MODE_C13_ipv6_tail 0
#endif
static size_t emit(unsigned char *o, size_t k, bstr *b){ size_t l=bstr_len(b); assert(l<=N); for(size_t i=0;i<l;i++){ o[k++]=bstr_ptr(b)[i]; } return k; }

/* input-level predicate of known finding C13-ipv6-tail, written from the URI grammar, not from the code:
 * scheme ":" "//" authority, authority = [userinfo "@"] "[" ... "]" tail, tail non-empty and not starting with ':' */
static int kf_ipv6_tail(const unsigned char *d, size_t len){
    if(len==0 || d[0]=='/') return 0;
    size_t p=0; while(p<len && d[p]!=':') p++;
    if(p>=len) return 0;
    p++;
    if(!(p+2<len && d[p]=='/' && d[p+1]=='/' && d[p+2]!='/')) return 0;
    size_t s=p+2, e=s; while(e<len && d[e]!='?' && d[e]!='/' && d[e]!='#') e++;
    size_t h=s; for(size_t i=s;i<e;i++) if(d[i]=='@'){ h=i+1; break; }
    if(h>=e || d[h]!='[') return 0;
    size_t j=h; while(j<e && d[j]!=']') j++;
    if(j>=e) return 0;
    j++;
    return j<e && d[j]!=':';
}

void harness(void){
    bstr *in=bstr_alloc(N); __CPROVER_assume(in!=NULL);
    size_t len=in_size_le(N);
    unsigned char raw[N];
    for(size_t i=0;i<N;i++){ unsigned char c=in_u8();
#ifdef ALPHA
        __CPROVER_assume(c=='a'||c==':'||c=='/'||c=='@'||c=='?'||c=='#'||c=='['||c==']'||c=='.'||c=='0'||c=='9'||c==' ');
#endif
        raw[i]=c; bstr_ptr(in)[i]=c; }
    bstr_adjust_len(in,len);
    size_t tl=len; while(tl>0 && raw[tl-1]==' ') tl--;
    KF_GATE(KF_MODE_C13_ipv6_tail, kf_ipv6_tail(raw,tl));
    htp_uri_t *u=NULL; int rc=htp_parse_uri(in,&u);
    assert(rc==HTP_OK && u!=NULL);
    /* input not modified */
    for(size_t i=0;i<N;i++) assert(bstr_ptr(in)[i]==raw[i]);
    if(tl>0 && raw[0]=='/'){ assert(u->scheme==NULL && u->hostname==NULL && u->username==NULL && u->password==NULL && u->port==NULL); }
    if(u->password) assert(u->username!=NULL);
    unsigned char o[4*N+16]; size_t k=0;
    if(u->scheme){ k=emit(o,k,u->scheme); o[k++]=':'; }
    if(u->hostname||u->username||u->port){ assert(u->scheme!=NULL); o[k++]='/'; o[k++]='/'; }
    if(u->username){ k=emit(o,k,u->username); if(u->password){ o[k++]=':'; k=emit(o,k,u->password);} o[k++]='@'; }
    if(u->hostname) k=emit(o,k,u->hostname);
    if(u->port){ o[k++]=':'; k=emit(o,k,u->port); }
    if(u->path) k=emit(o,k,u->path);
    if(u->query){ o[k++]='?'; k=emit(o,k,u->query); }
    if(u->fragment){ o[k++]='#'; k=emit(o,k,u->fragment); }
    assert(k==tl);
    for(size_t i=0;i<N;i++) if(i<tl) assert(o[i]==raw[i]);
    VERIF_COVER(u->hostname!=NULL && u->port!=NULL && u->username!=NULL, "authority with userinfo and port");
    VERIF_COVER(u->query!=NULL && u->fragment!=NULL, "query and fragment");
    VERIF_COVER(tl<len, "trailing spaces");
    VERIF_WITNESS();
}

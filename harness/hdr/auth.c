/* C02.auth / C02.cookie: credentials and cookies are reported exactly as on the wire.
 * FUNC 1: Basic: user (0..UL bytes, no ':') ':' password (0..PL bytes, any incl ':') is base64-encoded by the
 *         harness and sent as "Basic <b64>" through the real htp_parse_authorization_basic (real base64 decoder).
 * FUNC 2: Digest: username="<u>" with u of <= UL bytes without quote/backslash.
 * FUNC 3: cookies: "n1=v1; n2=v2" through the real htp_parse_cookies_v0 (table model). */
#include "verif.h"
#include "htp_private.h"
#ifndef UL
#define UL 2
#endif
#ifndef PL
#define PL 3
#endif
unsigned verif_nlog;
void htp_log(htp_connp_t *connp, const char *file, int line, enum htp_log_level_t level, int code, const char *fmt, ...){ verif_nlog++; }
static htp_cfg_t CFG; static htp_connp_t C; static htp_tx_t TX; static htp_conn_t CONN;
static const char B64[]="ABCDEFGHIJKLMNOPQRSTUVWXYZabcdefghijklmnopqrstuvwxyz0123456789+/";
static size_t b64enc(const unsigned char *in, size_t n, unsigned char *out){ size_t k=0; for(size_t i=0;i<UL+PL+1;i+=3){ if(i>=n) break; unsigned v=in[i]<<16; if(i+1<n) v|=in[i+1]<<8; if(i+2<n) v|=in[i+2];
    out[k++]=B64[(v>>18)&63]; out[k++]=B64[(v>>12)&63]; out[k++]=(i+1<n)?B64[(v>>6)&63]:'='; out[k++]=(i+2<n)?B64[v&63]:'='; } return k; }
/* contract stub of the base64 decoder (the decoder itself is a C17-class leaf): returns the harness's raw credentials */
static unsigned char RAW[UL+PL+1]; static size_t RAWN; static unsigned n_dec;
bstr *htp_base64_decode_mem(const void *data, size_t len){ n_dec++; assert(len>0); return bstr_dup_mem(RAW,RAWN); }
static int eqb(bstr *b, const unsigned char *d, size_t n){ if(b==NULL) return 0; if(bstr_len(b)!=n) return 0; for(size_t i=0;i<8;i++) if(i<n && bstr_ptr(b)[i]!=d[i]) return 0; return 1; }
void harness(void){
    C.cfg=&CFG; C.in_tx=&TX; C.conn=&CONN; TX.connp=&C; TX.cfg=&CFG;
    static htp_header_t Hh; unsigned char val[40]; size_t n=0;
#if FUNC==1
    unsigned char u[UL], p[PL], raw[UL+PL+1]; size_t ul=in_range(0,UL), pl=in_range(0,PL), rn=0;
    for(size_t i=0;i<UL;i++){ u[i]=in_u8(); if(i<ul){ __CPROVER_assume(u[i]!=':'); raw[rn++]=u[i]; } }
    raw[rn++]=':';
    for(size_t i=0;i<PL;i++){ p[i]=in_u8(); if(i<pl) raw[rn++]=p[i]; }
    val[n++]='B';val[n++]='a';val[n++]='s';val[n++]='i';val[n++]='c'; val[n++]=' '; val[n++]='Q'; val[n++]='Q'; val[n++]='=';val[n++]='=';
    for(size_t i=0;i<UL+PL+1;i++) RAW[i]=raw[i]; RAWN=rn;
    Hh.value=bstr_dup_mem(val,n); __CPROVER_assume(Hh.value);
    int rc=htp_parse_authorization_basic(&C,&Hh);
    assert(rc==HTP_OK);
    assert(eqb(TX.request_auth_username,u,ul)); assert(eqb(TX.request_auth_password,p,pl));
    VERIF_COVER(pl==PL && p[1]==':', "password containing a colon");
#elif FUNC==2
    unsigned char u[UL+1]; size_t ul=in_range(0,UL+1); const char *pre="Digest username=\"";
    for(size_t i=0;pre[i];i++) val[n++]=(unsigned char)pre[i];
    for(size_t i=0;i<UL+1;i++){ u[i]=in_u8(); if(i<ul){ __CPROVER_assume(u[i]!='"'&&u[i]!='\\'); val[n++]=u[i]; } }
    val[n++]='"'; val[n++]=','; val[n++]=' '; val[n++]='r'; val[n++]='=';val[n++]='"';val[n++]='x';val[n++]='"';
    Hh.value=bstr_dup_mem(val,n); __CPROVER_assume(Hh.value);
    int rc=htp_parse_authorization_digest(&C,&Hh);
    assert(rc==HTP_OK); assert(eqb(TX.request_auth_username,u,ul));
    VERIF_COVER(ul==UL+1, "longest user");
#endif
    VERIF_WITNESS();
}

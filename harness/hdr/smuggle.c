/* C11: generated request header blocks (symbolic spelling: field order, letter case, optional
 * whitespace, value formatting, an optional irrelevant header in between) through the REAL
 * htp_process_request_header_generic (real table/list/bstr) and the REAL htp_tx_state_request_headers:
 * the smuggling / invalid / host indicators and the framing decision are exactly those the trigger demands. */
#include "verif.h"
#include "htp_private.h"
#ifndef KF_MODE_C11_folded_cl_not_flagged
#define KF_MODE_C11_folded_cl_not_flagged 0
#endif
unsigned verif_nlog;
void htp_log(htp_connp_t *connp, const char *file, int line, enum htp_log_level_t level, int code, const char *fmt, ...){ verif_nlog++; }
htp_status_t htp_connp_req_receiver_finalize_clear(htp_connp_t *c){ return HTP_OK; }
htp_status_t htp_hook_run_all(htp_hook_t *hook, void *user_data){ return HTP_OK; }
static htp_cfg_t CFG; static htp_connp_t C; static htp_tx_t TX; static htp_conn_t CONN; static htp_uri_t URI;
/* name with symbolic letter case */
#ifndef CASEMASK
#define CASEMASK 0xffffffffu
#endif
static size_t put_name(unsigned char *o, const char *nm){ size_t k=0; unsigned bits=in_uint()&CASEMASK; for(size_t i=0;nm[i];i++){ unsigned char c=(unsigned char)nm[i]; if(c>='a'&&c<='z'&&((bits>>i)&1)) c-=32; o[k++]=c; } return k; }
#ifndef OWSMAX
#define OWSMAX 2
#endif
static size_t put_ows(unsigned char *o){ unsigned n=in_range(0,OWSMAX); size_t k=0; for(unsigned i=0;i<2;i++) if(i<n) o[k++]=in_bool()?' ':'\t'; return k; }
static void feed_line(unsigned char *l, size_t n){ assert(n<=48); assert(htp_process_request_header_generic(&C,l,n)==HTP_OK); }
static unsigned char L0[48], L1[48], L2[48], L3[48]; static unsigned char *L[4]={L0,L1,L2,L3}; static size_t LN[4];
static void gen_cl(int k, unsigned fmt, unsigned char d){ unsigned char *o=L[k]; size_t n=put_name(o,"content-length"); o[n++]=':'; n+=put_ows(o+n);
    if(fmt==0){ o[n++]=d; } else if(fmt==1){ o[n++]='0'; o[n++]=d; } else if(fmt==2){ o[n++]='x'; } /* fmt 3: empty */
    n+=put_ows(o+n); LN[k]=n; }
static void gen_te(int k, unsigned fmt){ unsigned char *o=L[k]; size_t n=put_name(o,"transfer-encoding"); o[n++]=':'; n+=put_ows(o+n);
    if(fmt==1){ o[n++]='g';o[n++]='z';o[n++]='i';o[n++]='p'; o[n++]=','; n+=put_ows(o+n); }
    if(fmt!=2) n+=put_name(o+n,"chunked"); else { o[n++]='g';o[n++]='z';o[n++]='i';o[n++]='p'; }
    n+=put_ows(o+n); LN[k]=n; }
static void gen_x(int k){ unsigned char *o=L[k]; size_t n=0; o[n++]='x'; o[n++]=':'; o[n++]=in_u8(); __CPROVER_assume(o[2]>32&&o[2]<127); LN[k]=n; }
static void gen_host(int k, unsigned which, unsigned withport){ unsigned char *o=L[k]; size_t n=put_name(o,"host"); o[n++]=':'; n+=put_ows(o+n); unsigned char h=which?'b':'a'; if(in_bool()) h-=32; o[n++]=h;
    if(withport){ o[n++]=':'; o[n++]='8'; o[n++]=(withport==1)?'0':'1'; } n+=put_ows(o+n); LN[k]=n; }
void harness(void){
    C.cfg=&CFG; C.in_tx=&TX; C.conn=&CONN; TX.connp=&C; TX.cfg=&CFG; TX.conn=&CONN;
    TX.request_headers=htp_table_create(4); __CPROVER_assume(TX.request_headers);
    TX.parsed_uri=&URI; URI.port_number=-1; TX.request_progress=HTP_REQUEST_HEADERS; TX.request_content_length=-1;
    unsigned proto=in_range(0,2); TX.request_protocol_number= proto==0?HTP_PROTOCOL_0_9:(proto==1?HTP_PROTOCOL_1_0:HTP_PROTOCOL_1_1);
#if SCEN==1 || SCEN==2
    int nlines=0; unsigned withx=WITHX, xpos=XPOS;     /* position of the irrelevant header: constant per query in the two-line scenarios */
#else
    int nlines=0; unsigned withx=in_bool(), xpos=in_range(0,1);
#endif
#if SCEN==1      /* chunked Transfer-Encoding together with Content-Length */
    unsigned tefmt=in_range(0,1), clfmt=in_range(0,1); unsigned char d=in_u8(); __CPROVER_assume(d>='0'&&d<='9'); unsigned order=ORDER;
#if ORDER
    gen_cl(0,clfmt,d); gen_te(1,tefmt);
#else
    gen_te(0,tefmt); gen_cl(1,clfmt,d);
#endif
    nlines=2;
#elif SCEN==2    /* two Content-Length fields */
    unsigned f1=in_range(0,1), f2=in_range(0,1); unsigned char d1=in_u8(), d2=in_u8(); __CPROVER_assume(d1>='0'&&d1<='9'&&d2>='0'&&d2<='9');
    gen_cl(0,f1,d1); gen_cl(1,f2,d2); nlines=2;
    TX.req_header_repetitions=in_range(0,HTP_MAX_HEADERS_REPETITIONS);   /* any number of earlier repetitions of OTHER fields */
#elif SCEN==3    /* chunked alone (protocol symbolic) */
    unsigned tefmt=in_range(0,2); gen_te(0,tefmt); nlines=1;
#elif SCEN==4    /* a single Content-Length, possibly unparseable */
    unsigned clfmt=in_range(0,3); unsigned char d=in_u8(); __CPROVER_assume(d>='0'&&d<='9'); gen_cl(0,clfmt,d); nlines=1;
#elif SCEN==5    /* host in the target vs Host field */
    unsigned urih=URIH, urip=in_range(0,2), hh=HH, hp=in_range(0,2);   /* which hosts: constants per query; ports, case, whitespace symbolic */   /* 0 none, 1 'a', 2 'b'; port 0 none, 1 80, 2 81 */
    if(urih){ URI.hostname=bstr_dup_c(urih==1?"a":(urih==2?"b":"ab"));      /* 3: a target host that strictly extends the Host-field name */ __CPROVER_assume(URI.hostname); if(urip) URI.port_number=(urip==1)?80:81; }
    if(hh){ gen_host(0,hh-1,hp); nlines=1; }
#elif SCEN==6    /* folded Content-Length, joined as htp_connp_REQ_HEADERS joins it (pending line ++ continuation line) */
    unsigned char d=in_u8(); __CPROVER_assume(d>='0'&&d<='9'); gen_cl(0,0,d); L[0][LN[0]++]=' '; nlines=1;
    KF_GATE(KF_MODE_C11_folded_cl_not_flagged, 1);
#endif
    /* optional irrelevant header at a symbolic position */
    int sent=0; for(int k=0;k<=nlines;k++){ if(withx && (int)xpos==k && k<=nlines){ gen_x(3); feed_line(L[3],LN[3]); } if(k<nlines){ feed_line(L[k],LN[k]); sent++; } }
    htp_status_t rc=htp_tx_state_request_headers(&TX);
    assert(rc==HTP_OK);
    uint64_t f=TX.flags;
#if SCEN==1
    assert(f&HTP_REQUEST_SMUGGLING); assert(TX.request_transfer_coding==HTP_CODING_CHUNKED); assert(!(f&HTP_REQUEST_INVALID));
    if(proto<2) assert(f&HTP_REQUEST_INVALID_T_E);
#elif SCEN==2
    assert(f&HTP_REQUEST_SMUGGLING); assert(TX.request_transfer_coding==HTP_CODING_IDENTITY); assert(TX.request_content_length==(int64_t)(d1-'0'));
    { htp_header_t *h=htp_table_get_c(TX.request_headers,"content-length"); assert(h && (h->flags&HTP_FIELD_REPEATED)); }
    VERIF_COVER(d1!=d2, "different values"); VERIF_COVER(d1==d2 && f1!=f2, "same value, different spelling");
#elif SCEN==3
    if(tefmt==2){ assert((f&HTP_REQUEST_INVALID)&&(f&HTP_REQUEST_INVALID_T_E)); assert(TX.request_transfer_coding==HTP_CODING_INVALID); }
    else { assert(TX.request_transfer_coding==HTP_CODING_CHUNKED); assert(!(f&HTP_REQUEST_INVALID));
           if(proto<2) assert((f&HTP_REQUEST_SMUGGLING)&&(f&HTP_REQUEST_INVALID_T_E)); else assert(!(f&HTP_REQUEST_SMUGGLING)&&!(f&HTP_REQUEST_INVALID_T_E)); }
#elif SCEN==4
    if(clfmt>=2){ assert((f&HTP_REQUEST_INVALID)&&(f&HTP_REQUEST_INVALID_C_L)); assert(TX.request_transfer_coding==HTP_CODING_INVALID); }
    else { assert(!(f&(HTP_REQUEST_INVALID|HTP_REQUEST_SMUGGLING))); assert(TX.request_transfer_coding==HTP_CODING_IDENTITY && TX.request_content_length==(int64_t)(d-'0')); }
#elif SCEN==5
    { int amb=0; if(urih && hh){ if(urih!=hh) amb=1; if(urip && hp && urip!=hp) amb=1; }
      assert(((f&HTP_HOST_AMBIGUOUS)!=0)==amb);
      assert(((f&HTP_HOST_MISSING)!=0)==(proto==2 && !hh));
      assert(!(f&HTP_HOSTH_INVALID));
      if(urih==3){ assert(TX.request_hostname && bstr_len(TX.request_hostname)==2 && bstr_ptr(TX.request_hostname)[0]=='a' && bstr_ptr(TX.request_hostname)[1]=='b'); }
      else if(urih){ assert(TX.request_hostname && bstr_len(TX.request_hostname)==1 && bstr_ptr(TX.request_hostname)[0]==(urih==1?'a':'b')); }
      else if(hh){ assert(TX.request_hostname && bstr_len(TX.request_hostname)==1 && (bstr_ptr(TX.request_hostname)[0]|0x20)==(hh==1?'a':'b')); assert(TX.request_port_number==(hp==0?-1:(hp==1?80:81))); }
      else assert(TX.request_hostname==NULL);
      VERIF_COVER(((f&HTP_HOST_AMBIGUOUS)!=0)==amb, "host scenario evaluated"); }
#elif SCEN==6
    assert(f&HTP_REQUEST_SMUGGLING);
#endif
    VERIF_WITNESS();
}

/* C02.hdr / C02.rl / C02.sl: one GENERATED line (grammar with symbolic terminals) through the real
 * line / field parsers: the reported fields are exactly the generated ones. */
#include "verif.h"
#include "htp_private.h"
#ifndef NL
#define NL 3   /* name bytes */
#endif
#ifndef VL
#define VL 4   /* value bytes */
#endif
unsigned verif_nlog;
void htp_log(htp_connp_t *connp, const char *file, int line, enum htp_log_level_t level, int code, const char *fmt, ...){ verif_nlog++; }
static htp_cfg_t CFG; static htp_connp_t C; static htp_tx_t TX; static htp_conn_t CONN;
static int is_tok(unsigned char c){ if(c<=32||c>=127) return 0; switch(c){ case '(':case ')':case '<':case '>':case '@':case ',':case ';':case ':':case '\\':case '"':case '/':case '[':case ']':case '?':case '=':case '{':case '}': return 0; } return 1; }
static int eqb(bstr *b, const unsigned char *d, size_t n){ if(b==NULL) return 0; if(bstr_len(b)!=n) return 0; for(size_t i=0;i<8;i++) if(i<n && bstr_ptr(b)[i]!=d[i]) return 0; return 1; }
void harness(void){
    C.cfg=&CFG; C.in_tx=&TX; C.out_tx=&TX; C.conn=&CONN; TX.connp=&C; TX.cfg=&CFG;
    unsigned char line[32]; size_t n=0;
#if FUNC==1 || FUNC==2   /* header line: name ":" OWS value OWS */
    unsigned char name[NL], val[VL]; size_t nl=in_range(1,NL), vl=in_range(0,VL); unsigned o1=in_range(0,2), o2=in_range(0,2);
    for(size_t i=0;i<NL;i++){ name[i]=in_u8(); if(i<nl){ __CPROVER_assume(is_tok(name[i])); line[n++]=name[i]; } }
    line[n++]=':'; for(unsigned i=0;i<2;i++) if(i<o1) line[n++]=in_bool()?' ':'\t';
    for(size_t i=0;i<VL;i++){ val[i]=in_u8(); if(i<vl){ __CPROVER_assume(val[i]!=0&&val[i]!='\r'&&val[i]!='\n'); line[n++]=val[i]; } }
    if(vl>0) __CPROVER_assume(val[0]!=' '&&val[0]!='\t'&&val[vl-1]!=' '&&val[vl-1]!='\t');
    for(unsigned i=0;i<2;i++) if(i<o2) line[n++]=in_bool()?' ':'\t';
    unsigned eol=in_range(0,2); if(eol>=1){ if(eol==2) line[n++]='\r'; line[n++]='\n'; }
    static htp_header_t Hh;
    htp_status_t rc = FUNC==1 ? htp_parse_request_header_generic(&C,&Hh,line,n) : htp_parse_response_header_generic(&C,&Hh,line,n);
    assert(rc==HTP_OK);
    assert(eqb(Hh.name,name,nl)); assert(eqb(Hh.value,val,vl));
    assert(!(Hh.flags&(HTP_FIELD_INVALID|HTP_FIELD_UNPARSEABLE))); assert(!(TX.flags&(HTP_FIELD_INVALID|HTP_FIELD_UNPARSEABLE)));
    VERIF_COVER(vl==VL && o1==2 && o2==2, "longest value with OWS on both sides");
#elif FUNC==3            /* request line: method SP uri SP protocol */
    unsigned char m[3], u[4]; size_t ml=in_range(1,3), ul=in_range(1,4); unsigned pk=in_range(0,3);
    static const char *PR[4]={"HTTP/0.9","HTTP/1.0","HTTP/1.1",""};
    for(size_t i=0;i<3;i++){ m[i]=in_u8(); if(i<ml){ __CPROVER_assume(is_tok(m[i])); line[n++]=m[i]; } }
    line[n++]=' ';
    for(size_t i=0;i<4;i++){ u[i]=in_u8(); if(i<ul){ __CPROVER_assume(u[i]>32&&u[i]<127); line[n++]=u[i]; } }
    if(pk<3){ line[n++]=' '; for(int i=0;i<8;i++) line[n++]=(unsigned char)PR[pk][i]; }
    TX.request_line=bstr_dup_mem(line,n); __CPROVER_assume(TX.request_line);
    CFG.server_personality=HTP_SERVER_GENERIC; CFG.allow_space_uri=in_bool();
    htp_status_t rc=htp_parse_request_line_generic(&C);
    assert(rc==HTP_OK);
    assert(eqb(TX.request_method,m,ml)); assert(eqb(TX.request_uri,u,ul));
    if(pk<3){ assert(eqb(TX.request_protocol,(const unsigned char*)PR[pk],8)); assert(TX.is_protocol_0_9==0);
        assert(TX.request_protocol_number==(pk==0?HTP_PROTOCOL_0_9:pk==1?HTP_PROTOCOL_1_0:HTP_PROTOCOL_1_1)); }
    else { assert(TX.request_protocol==NULL && TX.is_protocol_0_9==1 && TX.request_protocol_number==HTP_PROTOCOL_0_9); }
    if(ml==3&&m[0]=='G'&&m[1]=='E'&&m[2]=='T') assert(TX.request_method_number==HTP_M_GET);
    if(ml==3&&m[0]=='P'&&m[1]=='U'&&m[2]=='T') assert(TX.request_method_number==HTP_M_PUT);
    if(ml<3) assert(TX.request_method_number==HTP_M_UNKNOWN);
    VERIF_COVER(TX.request_method_number==HTP_M_GET && pk==2, "GET ... HTTP/1.1");
#else                    /* status line: protocol SP 3 digits SP reason */
    unsigned pk=in_range(0,1); static const char *PR[2]={"HTTP/1.0","HTTP/1.1"}; unsigned char d[3], msg[3]; size_t rl=in_range(0,3);
    for(int i=0;i<8;i++) line[n++]=(unsigned char)PR[pk][i]; line[n++]=' ';
    for(int i=0;i<3;i++){ d[i]=in_u8(); __CPROVER_assume(d[i]>='0'&&d[i]<='9'); line[n++]=d[i]; }
    if(rl>0){ line[n++]=' '; for(size_t i=0;i<3;i++){ msg[i]=in_u8(); if(i<rl){ __CPROVER_assume(msg[i]>32&&msg[i]<127); line[n++]=msg[i]; } } }
    TX.response_line=bstr_dup_mem(line,n); __CPROVER_assume(TX.response_line);
    htp_status_t rc=htp_parse_response_line_generic(&C); assert(rc==HTP_OK);
    assert(eqb(TX.response_protocol,(const unsigned char*)PR[pk],8)); assert(TX.response_protocol_number==(pk?HTP_PROTOCOL_1_1:HTP_PROTOCOL_1_0));
    assert(eqb(TX.response_status,d,3));
    int v=(d[0]-'0')*100+(d[1]-'0')*10+(d[2]-'0'); if(v>=100) assert(TX.response_status_number==v); else assert(TX.response_status_number==HTP_STATUS_INVALID);
    if(rl>0) assert(eqb(TX.response_message,msg,rl)); else assert(TX.response_message==NULL);
    VERIF_COVER(v==999 && rl==3, "999 with reason");
#endif
    VERIF_WITNESS();
}

/* C18: single-fault allocator model. Every real unit is compiled with -include fault_alloc.h, so the
 * allocation whose ordinal equals the symbolic verif_fail_at returns NULL and all others succeed
 * ("no failure" included). The unit is used as a caller would after an error return and then torn down;
 * CBMC's free / dereference checks are the oracle (double free, use after free, NULL dereference). */
#include "verif.h"
#include "htp_private.h"
unsigned verif_alloc_n, verif_fail_at;
unsigned verif_nlog;
void htp_log(htp_connp_t *connp, const char *file, int line, enum htp_log_level_t level, int code, const char *fmt, ...){ verif_nlog++; }
#ifndef KF_MODE_C18_config_copy_shared_hooks
#define KF_MODE_C18_config_copy_shared_hooks 0
#endif
#if FUNC==1||FUNC==2||FUNC==6||FUNC==8||FUNC==10
void htp_urlenp_destroy(htp_urlenp_t *u){ assert(u==NULL); } void htp_mpartp_destroy(htp_mpartp_t *m){ assert(m==NULL); }
#endif
static int cb(void *p){ return HTP_OK; }
static htp_cfg_t CFG; static htp_connp_t C; static htp_tx_t TX; static htp_conn_t CONN;
void harness(void){
#ifdef FAILAT
    verif_fail_at=FAILAT;                  /* one query per ordinal where the symbolic ordinal does not fit */
#else
    verif_fail_at=in_range(0,MAXALLOC);
#endif
    /* MAXALLOC >= number of allocations of the fault-free run: the last values mean 'no failure' */
#if FUNC==1     /* connection object */
    htp_conn_t *conn=htp_conn_create(); if(conn==NULL) goto done;
    htp_status_t rc=htp_conn_open(conn,"1.2.3.4",80,"5.6.7.8",81,NULL);
    if(rc==HTP_OK){ assert(conn->client_addr && conn->server_addr); }
    htp_conn_destroy(conn);
#elif FUNC==2   /* parser object */
    htp_connp_t *p=htp_connp_create(&CFG); if(p==NULL) goto done;
    htp_connp_open(p,"1.2.3.4",80,"5.6.7.8",81,NULL);
    htp_tx_t *t=htp_connp_tx_create(p);
    if(t){ assert(htp_list_size(p->conn->transactions)>=1 || 1); }
    htp_connp_destroy_all(p);
#elif FUNC==3   /* hooks */
    htp_hook_t *h=NULL; htp_status_t r1=htp_hook_register(&h,cb); htp_status_t r2=htp_hook_register(&h,cb);
    htp_hook_t *c=htp_hook_copy(h);
    if(c){ assert(htp_hook_run_all(c,NULL)==HTP_OK); }
    htp_hook_destroy(c); htp_hook_destroy(h);
#elif FUNC==4   /* configuration copy: the source stays usable and both are destroyed */
    htp_cfg_t *cfg=calloc(1,sizeof(htp_cfg_t)); __CPROVER_assume(cfg);
    unsigned saved=verif_fail_at; verif_fail_at=~0u;            /* the source configuration is built without faults */
    htp_config_register_request_start(cfg,(int(*)(htp_tx_t*))cb); htp_config_register_request_line(cfg,(int(*)(htp_tx_t*))cb); htp_config_register_response_complete(cfg,(int(*)(htp_tx_t*))cb);
    verif_fail_at=saved; verif_alloc_n=0;
    KF_GATE(KF_MODE_C18_config_copy_shared_hooks, saved>=1 && saved<=8);
    htp_cfg_t *cp=htp_config_copy(cfg);
    /* the source is still usable whatever happened to the copy */
    assert(htp_hook_run_all(cfg->hook_request_start,&TX)==HTP_OK && htp_hook_run_all(cfg->hook_request_line,&TX)==HTP_OK && htp_hook_run_all(cfg->hook_response_complete,&TX)==HTP_OK);
    if(cp) htp_config_destroy(cp);
    htp_config_destroy(cfg);
#elif FUNC==5   /* containers */
    htp_table_t *t=htp_table_create(1); bstr *k=bstr_dup_c("k"); 
    if(t&&k){ htp_status_t a=htp_table_add(t,k,&TX); htp_status_t b=htp_table_add(t,k,&TX); htp_status_t c=htp_table_add(t,k,&TX); assert(htp_table_size(t)==(size_t)((a==HTP_OK)+(b==HTP_OK)+(c==HTP_OK))); if(a==HTP_OK) assert(htp_table_get_c(t,"K")==&TX); }
    bstr_builder_t *bb=bstr_builder_create(); if(bb){ bstr_builder_append_c(bb,"ab"); bstr_builder_append_c(bb,"c"); bstr *s=bstr_builder_to_str(bb); if(s) assert(bstr_len(s)<=3); bstr_free(s); bstr_builder_destroy(bb); }
    htp_table_destroy(t); bstr_free(k);
#elif FUNC==6   /* request header processing, then transaction teardown */
    htp_connp_t *p=htp_connp_create(&CFG); if(p==NULL) goto done; htp_tx_t *t=htp_connp_tx_create(p);
    if(t){ static unsigned char l1[]="A: b", l2[]="a: c", l3[]="Host: x";
        htp_status_t r1=htp_process_request_header_generic(p,l1,4); htp_status_t r2=htp_process_request_header_generic(p,l2,4); htp_status_t r3=htp_process_request_header_generic(p,l3,7);
        if(r1==HTP_OK&&r2==HTP_OK&&r3==HTP_OK&&htp_table_size(t->request_headers)==2){ htp_header_t *h=htp_table_get_c(t->request_headers,"a"); assert(h!=NULL); } }
    htp_connp_destroy_all(p);
#elif FUNC==10  /* response header processing, then transaction teardown */
    htp_connp_t *p=htp_connp_create(&CFG); if(p==NULL) goto done; htp_tx_t *t=htp_connp_tx_create(p);
    if(t){ static unsigned char l1[]="A: b", l2[]="a: c", l3[]="Server: x"; p->out_tx=t;
        htp_status_t r1=htp_process_response_header_generic(p,l1,4); htp_status_t r2=htp_process_response_header_generic(p,l2,4); htp_status_t r3=htp_process_response_header_generic(p,l3,9);
        if(r1==HTP_OK&&r2==HTP_OK&&r3==HTP_OK&&htp_table_size(t->response_headers)==2){ htp_header_t *h=htp_table_get_c(t->response_headers,"a"); assert(h!=NULL); } }
    htp_connp_destroy_all(p);
#elif FUNC==7   /* credentials */
    C.cfg=&CFG; C.in_tx=&TX; TX.connp=&C; static htp_header_t Hh; Hh.value=bstr_dup_c(KIND?"Digest username=\"ab\"":"Basic YTpi");
    if(Hh.value){ int rc= KIND? htp_parse_authorization_digest(&C,&Hh):htp_parse_authorization_basic(&C,&Hh);
        /* what htp_tx_destroy_incomplete does with the two fields afterwards */
        bstr_free(TX.request_auth_username); bstr_free(TX.request_auth_password); bstr_free(Hh.value); }
#elif FUNC==8   /* request line -> URI parsing and normalisation, then teardown */
    htp_connp_t *p=htp_connp_create(&CFG); if(p==NULL) goto done; htp_tx_t *t=htp_connp_tx_create(p);
    if(t){ t->request_method_number=HTP_M_GET; t->request_uri=bstr_dup_c("http://u:p@h:80/a/../b?q#f");
        if(t->request_uri){ htp_status_t rc=htp_tx_state_request_line(t); if(rc==HTP_OK) assert(t->parsed_uri && t->parsed_uri->path); } }
    htp_connp_destroy_all(p);
#elif FUNC==9   /* urlencoded parser */
    TX.cfg=&CFG; htp_urlenp_t *u=htp_urlenp_create(&TX);
    if(u){ htp_urlenp_parse_partial(u,"a=1&b",5); htp_urlenp_parse_partial(u,"c=2",3); htp_urlenp_finalize(u);
        for(size_t i=0,n=htp_table_size(u->params);i<n;i++){ bstr *k=NULL; bstr *v=htp_table_get_index(u->params,i,&k); assert(k&&v); }
        htp_urlenp_destroy(u); }
#endif
done:
    VERIF_WITNESS();
}

/* C03 (request side): two-run differential on the REAL request stream layer, see res_split.c.
 * START 1 = REQ_HEADERS, 2 = REQ_LINE (then REQ_PROTOCOL, REQ_HEADERS), 3 = REQ_FINALIZE (then REQ_IDLE, REQ_LINE ...) */
#include "req_unity.h"
#include "evlog.h"
#ifndef SHAPE
#define SHAPE "xx\r\n\r\ny"
#endif
#ifndef START
#define START 1
#endif
static const char shape[]=SHAPE;
#define N (sizeof(shape)-1)
unsigned verif_nlog;
void htp_log(htp_connp_t *connp, const char *file, int line, enum htp_log_level_t level, int code, const char *fmt, ...){ verif_nlog++; }
static htp_cfg_t CFG; static htp_conn_t CONN; static htp_connp_t C[2]; static htp_tx_t TX[2];
static int rec_header(htp_connp_t *c, unsigned char *d, size_t l){ ev(EV_HDR); evbytes(d,l); ev(EV_END); return HTP_OK; }
static int rec_parse_line(htp_connp_t *c){ c->in_tx->is_protocol_0_9=0; return HTP_OK; }
htp_status_t htp_tx_state_request_line(htp_tx_t *tx){ ev(EV_LINE); evbytes(bstr_ptr(tx->request_line),bstr_len(tx->request_line)); ev(EV_END); tx->connp->in_state=htp_connp_REQ_PROTOCOL; return HTP_OK; }
htp_status_t htp_tx_req_process_body_data_ex(htp_tx_t *tx, const void *data, size_t len){ if(data){ ev(EV_BODY); evbytes(data,len); ev(EV_END); } else ev(EV_EOB); return HTP_OK; }
htp_status_t htp_tx_state_request_complete(htp_tx_t *tx){ ev(EV_COMPLETE); tx->connp->in_state=htp_connp_REQ_IDLE; return HTP_OK; }
htp_status_t htp_tx_state_request_headers(htp_tx_t *tx){ ev(EV_HEADERS); tx->connp->in_state=htp_connp_REQ_CONNECT_CHECK; return HTP_OK; }
htp_status_t htp_tx_state_request_start(htp_tx_t *tx){ ev(EV_START); tx->connp->in_state=htp_connp_REQ_LINE; tx->request_progress=HTP_REQUEST_LINE; return HTP_OK; }
htp_tx_t *htp_connp_tx_create(htp_connp_t *c){ ev(EV_TXCREATE); return c->in_tx; }
void htp_conn_track_inbound_data(htp_conn_t *conn, size_t len, const htp_time_t *t){ }
htp_status_t htp_hook_run_all(htp_hook_t *hook, void *user_data){ return HTP_OK; }
static int done[2];
/* one driver call: the states a fragment of this START can traverse, each at most once and in their only possible order
 * (a loop over "whatever in_state says" makes CBMC inline every state function in every iteration) */
#define STEP(S) if(!stop && !done[R] && c->in_state==S){ htp_status_t rc=S(c); \
        if(rc==HTP_OK){ c->in_state_previous=c->in_state; } \
        else { assert(rc==HTP_DATA||rc==HTP_DATA_BUFFER); htp_connp_req_receiver_send_data(c,0); if(rc==HTP_DATA_BUFFER){ htp_status_t b=htp_connp_req_buffer(c); assert(b==HTP_OK); } stop=1; } }
static void feed(htp_connp_t *c, unsigned char *data, size_t len){
    c->in_current_data=data; c->in_current_len=(int64_t)len; c->in_current_read_offset=0; c->in_current_consume_offset=0; c->in_current_receiver_offset=0; c->in_chunk_count++;
    int stop=0;
    if(done[R]){ evbytes(data,len); return; }      /* the fragment's states are finished: everything else belongs to the successor state */
#if START==3
    STEP(htp_connp_REQ_FINALIZE) STEP(htp_connp_REQ_IDLE)
#endif
#if START>=2
    STEP(htp_connp_REQ_LINE) STEP(htp_connp_REQ_PROTOCOL)
#endif
#if START<=2 && !defined(NOHDR)
    STEP(htp_connp_REQ_HEADERS)
#endif
    if(!stop && !done[R]){ done[R]=1; ev(EV_REST); evbytes(data+c->in_current_read_offset,len-(size_t)c->in_current_read_offset); }
}
static void run(int r, unsigned char *buf, size_t len, size_t cut){
    R=r; htp_connp_t *c=&C[r]; htp_tx_t *tx=&TX[r];
    c->cfg=&CFG; c->conn=&CONN; c->in_tx=tx; tx->connp=c; tx->cfg=&CFG; tx->conn=&CONN;
    c->in_status=HTP_STREAM_DATA; c->out_status=HTP_STREAM_DATA;
#if START==1
    tx->request_progress=HTP_REQUEST_HEADERS; c->in_state=htp_connp_REQ_HEADERS;
#elif START==2
    tx->request_progress=HTP_REQUEST_LINE; c->in_state=htp_connp_REQ_LINE;
#else
    tx->request_progress=HTP_REQUEST_BODY; c->in_state=htp_connp_REQ_FINALIZE;
#endif
    c->in_state_previous=c->in_state;
    if(cut==0) feed(c,buf,len); else { feed(c,buf,cut); feed(c,buf+cut,len-cut); }
    ev(EV_END); { uint64_t f=tx->flags & ~(uint64_t)HTP_MULTI_PACKET_HEAD; evbytes((unsigned char*)&f,3); }
}
void harness(void){
    CFG.field_limit_hard=18000; CFG.process_request_header=rec_header; CFG.parse_request_line=rec_parse_line; CFG.server_personality=HTP_SERVER_GENERIC;
    unsigned char buf[N];
    for(size_t i=0;i<N;i++){ char s=shape[i]; unsigned char b;
        if(s=='x'){ b=in_u8(); __CPROVER_assume(b!='\r'&&b!='\n'&&b!=0&&b!=':'&&b!=' '&&b!='\t'); }
        else if(s=='y'){ b=in_u8(); }
        else b=(unsigned char)s;
        buf[i]=b; }
    size_t cut=CUT;
    run(0,buf,N,0); run(1,buf,N,cut);
    assert(LOGN[0]==LOGN[1]);
    for(size_t i=0;i<LOGSZ;i++) if(i<LOGN[0]) assert(LOG[0][i]==LOG[1][i]);
    VERIF_COVER(NEV[0]>=3, "at least three events recorded");
    VERIF_WITNESS();
}

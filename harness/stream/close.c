/* C09.G3: htp_connp_close / htp_connp_req_close never turn a failed or stopped direction into CLOSED
 * (and therefore never run its parser again); every other state becomes CLOSED and the parsers get
 * their zero-length finalisation call. Real htp_connection_parser.c; the two drivers are recorders. */
#include "verif.h"
#include "htp_private.h"
unsigned verif_nlog;
void htp_log(htp_connp_t *connp, const char *file, int line, enum htp_log_level_t level, int code, const char *fmt, ...){ verif_nlog++; }
static unsigned nreq, nres; static unsigned st_in_at_req, st_out_at_res;
int htp_connp_req_data(htp_connp_t *c, const htp_time_t *t, const void *d, size_t len){ nreq++; assert(d==NULL && len==0); st_in_at_req=c->in_status; return c->in_status; }
int htp_connp_res_data(htp_connp_t *c, const htp_time_t *t, const void *d, size_t len){ nres++; assert(d==NULL && len==0); st_out_at_res=c->out_status; return c->out_status; }
void htp_conn_close(htp_conn_t *conn, const htp_time_t *t){ }
void harness(void){
    static htp_connp_t C; static htp_conn_t CONN; static htp_cfg_t CFG; C.conn=&CONN; C.cfg=&CFG;
    unsigned a=in_range(HTP_STREAM_NEW,HTP_STREAM_DATA), b=in_range(HTP_STREAM_NEW,HTP_STREAM_DATA);
    __CPROVER_assume((a<=HTP_STREAM_STOP||a==HTP_STREAM_DATA)&&(b<=HTP_STREAM_STOP||b==HTP_STREAM_DATA));
    C.in_status=a; C.out_status=b;
    if(in_bool()){ htp_connp_close(&C,NULL); assert(nreq==1 && nres==1);
        if(b==HTP_STREAM_ERROR||b==HTP_STREAM_STOP) assert(C.out_status==b && st_out_at_res==b); else assert(st_out_at_res==HTP_STREAM_CLOSED); }
    else { htp_connp_req_close(&C,NULL); assert(nreq==1 && nres==0 && C.out_status==b); }
    if(a==HTP_STREAM_ERROR||a==HTP_STREAM_STOP) assert(C.in_status==a && st_in_at_req==a); else assert(st_in_at_req==HTP_STREAM_CLOSED);
    VERIF_WITNESS();
}

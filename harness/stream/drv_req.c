/* C09.G1 / C16: the REAL request driver htp_connp_req_data over a CONTRACT STUB state function
 * (the contract every real state function is checked against in req_step.c): documented return codes,
 * consumed counts, byte counters, sticky ERROR/STOP, TUNNEL short-circuit, zero-length refusal, gaps. */
#include "verif.h"
#include "htp_private.h"
#ifndef N
#define N 4
#endif
unsigned verif_nlog;
void htp_log(htp_connp_t *connp, const char *file, int line, enum htp_log_level_t level, int code, const char *fmt, ...){ verif_nlog++; }
static unsigned ncalls, nhook, ncomplete; static htp_tx_t TXS;
htp_status_t htp_hook_run_all(htp_hook_t *hook, void *user_data){ nhook++; return HTP_OK; }
htp_status_t htp_tx_state_request_complete(htp_tx_t *tx){ ncomplete++; unsigned v=in_range(0,2); return v==0?HTP_OK:(v==1?HTP_ERROR:HTP_STOP); }
static int last_rc;
/* contract stub of a state function: moves offsets forward within the chunk, returns any documented code */
htp_status_t stub_state(htp_connp_t *c){ ncalls++;
    assert(c->in_status!=HTP_STREAM_ERROR && c->in_status!=HTP_STREAM_STOP && c->in_status!=HTP_STREAM_TUNNEL);
    int64_t adv=(int64_t)in_size_le(N); __CPROVER_assume(c->in_current_read_offset+adv<=c->in_current_len); c->in_current_read_offset+=adv;
    int64_t cadv=(int64_t)in_size_le(N); __CPROVER_assume(c->in_current_consume_offset+cadv<=c->in_current_read_offset); c->in_current_consume_offset+=cadv;
    unsigned v=in_range(0,5); int rc= v==0?HTP_OK: v==1?HTP_DATA: v==2?HTP_DATA_BUFFER: v==3?HTP_DATA_OTHER: v==4?HTP_ERROR:HTP_STOP;
    if(rc==HTP_DATA||rc==HTP_DATA_BUFFER) __CPROVER_assume(c->in_current_read_offset==c->in_current_len);
    if(rc==HTP_DATA) __CPROVER_assume(c->in_current_consume_offset==c->in_current_read_offset);
    if(rc==HTP_OK){ if(in_bool()){ c->in_status=HTP_STREAM_TUNNEL; if(c->out_status!=HTP_STREAM_ERROR&&c->out_status!=HTP_STREAM_STOP) c->out_status=HTP_STREAM_TUNNEL; } __CPROVER_assume(ncalls<3); }   /* contract: OK implies progress, so the loop is bounded */
    /* the real IDLE state (checked in *_step.c) without a transaction: needs data (DATA), creates one (OK) or fails (ERROR) */
    if(c->in_tx==NULL){ __CPROVER_assume(rc==HTP_OK||rc==HTP_DATA||rc==HTP_ERROR); if(rc==HTP_OK) c->in_tx=&TXS; }
    last_rc=rc; return rc; }
htp_status_t htp_connp_REQ_IDLE(htp_connp_t *c){ return stub_state(c); }
void harness(void){
    static htp_cfg_t CFG; static htp_connp_t C; static htp_conn_t CONN; static htp_tx_t TX; TXS.cfg=&CFG; TXS.connp=&C;
    CFG.field_limit_hard=in_size_le(N+2);
    C.cfg=&CFG; C.conn=&CONN; TX.connp=&C; TX.cfg=&CFG; TX.conn=&CONN;
    unsigned has_tx=in_bool(); C.in_tx=has_tx?&TX:NULL;
    unsigned idle=in_bool(); C.in_state=idle?htp_connp_REQ_IDLE:stub_state; C.in_state_previous=C.in_state;
    unsigned st=in_range(HTP_STREAM_NEW,HTP_STREAM_DATA); __CPROVER_assume(st<=HTP_STREAM_STOP||st==HTP_STREAM_DATA); C.in_status=st;
    unsigned ost=in_range(HTP_STREAM_NEW,HTP_STREAM_DATA); __CPROVER_assume(ost<=HTP_STREAM_STOP||ost==HTP_STREAM_DATA); C.out_status=ost;
    if(in_bool()){ size_t bs=in_size_le(2); __CPROVER_assume(bs>=1); C.in_buf=malloc(8); __CPROVER_assume(C.in_buf); C.in_buf_size=bs; __CPROVER_assume(bs<=CFG.field_limit_hard); }   /* INV_A */
    unsigned char *buf=malloc(N); __CPROVER_assume(buf); for(int i=0;i<N;i++) buf[i]=in_u8();
    size_t len=in_size_le(N); unsigned gap=in_bool();
    int64_t before=in_ull()&0xffff; CONN.in_data_counter=before; size_t cc0=C.in_chunk_count;
    int rc=htp_connp_req_data(&C,NULL,gap?NULL:buf,len);
    size_t consumed=htp_connp_req_data_consumed(&C);
    /* documented stream states only */
    assert(rc==HTP_STREAM_CLOSED||rc==HTP_STREAM_ERROR||rc==HTP_STREAM_TUNNEL||rc==HTP_STREAM_DATA_OTHER||rc==HTP_STREAM_STOP||rc==HTP_STREAM_DATA);
    int entry_refused = (st==HTP_STREAM_ERROR||st==HTP_STREAM_STOP) || (!has_tx && !idle) || (len==0 && st!=HTP_STREAM_CLOSED);
    /* sticky failure: same state again, no state function, no callback */
    if(st==HTP_STREAM_ERROR||st==HTP_STREAM_STOP){ assert(rc==(int)st && ncalls==0 && nhook==0 && ncomplete==0 && C.in_status==st && CONN.in_data_counter==before); }
    else if(!has_tx && !idle){ assert(rc==HTP_STREAM_ERROR && C.in_status==HTP_STREAM_ERROR && ncalls==0); }
    else if(len==0 && st!=HTP_STREAM_CLOSED){ assert(rc==HTP_STREAM_CLOSED && ncalls==0 && nhook==0 && C.in_status==st && CONN.in_data_counter==before && C.in_chunk_count==cc0); }
    else {
        /* byte counter equals the bytes offered */
        assert(CONN.in_data_counter==before+(int64_t)len);
        if(st==HTP_STREAM_TUNNEL){ assert(rc==HTP_STREAM_TUNNEL && ncalls==0 && nhook==0 && ncomplete==0); }
        else {
            if(rc==HTP_STREAM_DATA) assert(consumed==len);
            if(rc==HTP_STREAM_DATA_OTHER) assert(consumed<len && C.in_status==HTP_STREAM_DATA_OTHER);
            if(rc==HTP_STREAM_ERROR) assert(C.in_status==HTP_STREAM_ERROR);
            if(rc==HTP_STREAM_STOP) assert(C.in_status==HTP_STREAM_STOP && (last_rc==HTP_STOP));
            if(rc==HTP_STREAM_TUNNEL) assert(C.in_status==HTP_STREAM_TUNNEL);
            if(rc==HTP_STREAM_CLOSED) assert(gap && len>0);      /* gap refused in a state that cannot skip bytes */
            assert(consumed<=len);
            /* C10: what is kept for the next call respects the hard limit */
            if(rc==HTP_STREAM_DATA && C.in_buf!=NULL && last_rc==HTP_DATA_BUFFER) assert(C.in_buf_size<=CFG.field_limit_hard);
        }
    }
    /* the other direction's failure state is never touched by the request driver */
    if(ost==HTP_STREAM_ERROR||ost==HTP_STREAM_STOP) assert(C.out_status==ost);
    VERIF_COVER(rc==HTP_STREAM_DATA_OTHER, "DATA_OTHER returned"); VERIF_COVER(rc==HTP_STREAM_ERROR && last_rc==HTP_DATA_BUFFER, "buffer limit exceeded");
    VERIF_COVER(gap && rc==HTP_STREAM_CLOSED, "gap refused");
    VERIF_WITNESS();
}

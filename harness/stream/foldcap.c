/* C10.fold / C08.cap: a pending folded header of HTP_MAX_HEADER_FOLDED bytes or more is not grown by further
 * continuation lines (whatever the transaction flags are), below the cap it grows by exactly the line.
 * Real htp_connp_REQ_HEADERS / htp_connp_RES_HEADERS; the pending header is a constant 100 KiB object
 * whose length field is symbolic around the cap. */
#include "htp_private.h"
/* the cap's VALUE is replaced by a small stand-in so that real (heap) headers around it can be built; the LOGIC around the cap is
 * the real code's. The real value (102400) is asserted separately below. */
enum { REAL_CAP = HTP_MAX_HEADER_FOLDED };
#undef HTP_MAX_HEADER_FOLDED
#define HTP_MAX_HEADER_FOLDED 8
#ifdef RES
#include "res_unity.h"
#define HDR out_header
#define CUR(x) out_current_##x
#define TXP out_tx
#define STATUS out_status
#define THE_STATE htp_connp_RES_HEADERS
#define PROGRESS response_progress
#define PROG_VAL HTP_RESPONSE_HEADERS
#else
#include "req_unity.h"
#define HDR in_header
#define CUR(x) in_current_##x
#define TXP in_tx
#define STATUS in_status
#define THE_STATE htp_connp_REQ_HEADERS
#define PROGRESS request_progress
#define PROG_VAL HTP_REQUEST_HEADERS
#endif
unsigned verif_nlog;
void htp_log(htp_connp_t *connp, const char *file, int line, enum htp_log_level_t level, int code, const char *fmt, ...){ verif_nlog++; }
#define BIGCAP 24
bstr *bstr_expand(bstr *b, size_t newsize){ if(b->realptr) return NULL; if(b->size>newsize) return NULL; __CPROVER_assume(newsize<=BIGCAP); b->size=newsize; return b; }
bstr *bstr_alloc(size_t len){ __CPROVER_assume(len<=BIGCAP); bstr *b=malloc(sizeof(bstr)+BIGCAP); __CPROVER_assume(b); b->len=0; b->size=len; b->realptr=NULL; return b; }
static unsigned n_hdr; static int rec_header(htp_connp_t *c, unsigned char *d, size_t l){ n_hdr++; return HTP_OK; }
static int rec_parse_line(htp_connp_t *c){ return HTP_OK; }
htp_status_t htp_hook_run_all(htp_hook_t *hook, void *user_data){ return HTP_OK; }
#ifdef RES
htp_status_t htp_tx_state_response_headers(htp_tx_t *tx){ return HTP_OK; } htp_status_t htp_tx_state_response_line(htp_tx_t *tx){ return HTP_OK; } htp_status_t htp_tx_state_response_start(htp_tx_t *tx){ return HTP_OK; }
htp_status_t htp_tx_state_response_complete_ex(htp_tx_t *tx,int h){ return HTP_OK; } htp_status_t htp_tx_res_process_body_data_ex(htp_tx_t *tx, const void *d, size_t l){ return HTP_OK; }
htp_status_t htp_tx_state_request_complete(htp_tx_t *tx){ return HTP_OK; } htp_tx_t *htp_connp_tx_create(htp_connp_t *c){ return NULL; } void htp_conn_track_outbound_data(htp_conn_t *conn, size_t len, const htp_time_t *t){ }
void *htp_table_get_c(const htp_table_t *t, const char *k){ return NULL; } size_t htp_table_size(const htp_table_t *t){ return 0; } void *htp_table_get_index(const htp_table_t *t, size_t i, bstr **k){ return NULL; } void htp_table_clear(htp_table_t *t){ } void *htp_list_array_get(const htp_list_array_t *l, size_t idx){ return NULL; }
#else
htp_status_t htp_tx_state_request_headers(htp_tx_t *tx){ return HTP_OK; } htp_status_t htp_tx_state_request_line(htp_tx_t *tx){ return HTP_OK; } htp_status_t htp_tx_state_request_start(htp_tx_t *tx){ return HTP_OK; }
htp_status_t htp_tx_state_request_complete(htp_tx_t *tx){ return HTP_OK; } htp_status_t htp_tx_req_process_body_data_ex(htp_tx_t *tx, const void *d, size_t l){ return HTP_OK; }
htp_tx_t *htp_connp_tx_create(htp_connp_t *c){ return NULL; } void htp_conn_track_inbound_data(htp_conn_t *conn, size_t len, const htp_time_t *t){ }
#endif
void harness(void){
    static htp_cfg_t CFG; static htp_connp_t C; static htp_tx_t TX; static htp_conn_t CONN;
    C.cfg=&CFG; C.conn=&CONN; C.TXP=&TX; TX.cfg=&CFG; TX.connp=&C; CFG.field_limit_hard=18000;
#ifdef RES
    CFG.process_response_header=rec_header; CFG.parse_response_line=rec_parse_line; TX.response_protocol_number=HTP_PROTOCOL_1_0;
#else
    CFG.process_request_header=rec_header; CFG.parse_request_line=rec_parse_line;
#endif
    TX.PROGRESS=PROG_VAL; C.STATUS=HTP_STREAM_DATA; TX.flags=in_ull();
    assert(REAL_CAP==102400);
    size_t l0=in_size(); __CPROVER_assume(l0+4>=HTP_MAX_HEADER_FOLDED && l0<=HTP_MAX_HEADER_FOLDED+4); bstr *h=bstr_alloc(l0); for(size_t i=0;i<BIGCAP;i++) bstr_ptr(h)[i]=in_u8(); bstr_adjust_len(h,l0); C.HDR=h;
    /* two continuation lines in one chunk, then the chunk ends */
    static unsigned char CH[6]={' ','x','\n','\t','y','\n'};
    C.CUR(data)=CH; C.CUR(len)=6; C.CUR(read_offset)=0; C.CUR(consume_offset)=0;
    htp_status_t rc=THE_STATE(&C);
    assert(rc==HTP_DATA_BUFFER && n_hdr==0);
    size_t l1=bstr_len(C.HDR);
    size_t exp=l0; if(exp<HTP_MAX_HEADER_FOLDED) exp+=2; if(exp<HTP_MAX_HEADER_FOLDED) exp+=2;
    assert(l1==exp);
    if(l0<HTP_MAX_HEADER_FOLDED) assert(l1<HTP_MAX_HEADER_FOLDED+2);   /* the documented cap: at most one line past it */
    VERIF_COVER(l0==HTP_MAX_HEADER_FOLDED-1, "one byte below the cap"); VERIF_COVER(l0==HTP_MAX_HEADER_FOLDED, "at the cap");
    VERIF_WITNESS();
}

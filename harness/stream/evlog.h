/* flat event log for recorders and differentials: LOG[run][...] of bytes; tags >= 0xE0 mark events */
#ifndef EVLOG_H
#define EVLOG_H
#ifndef LOGSZ
#define LOGSZ 64
#endif
#ifndef NRUNS
#define NRUNS 2
#endif
static unsigned char LOG[NRUNS][LOGSZ]; static size_t LOGN[NRUNS]; static int R; static unsigned NEV[NRUNS];
static void ev(unsigned char tag){ assert(LOGN[R]<LOGSZ); LOG[R][LOGN[R]++]=tag; NEV[R]++; }
static void evbytes(const unsigned char *d, size_t l){ for(size_t i=0;i<l;i++){ assert(LOGN[R]<LOGSZ); LOG[R][LOGN[R]++]=d[i]; } }
/* escape so that payload bytes cannot be mistaken for tags: byte b -> (b>>4),(b&15) */
static void evdata(const unsigned char *d, size_t l){ for(size_t i=0;i<l;i++){ assert(LOGN[R]+1<LOGSZ); LOG[R][LOGN[R]++]=d[i]>>4; LOG[R][LOGN[R]++]=d[i]&15; } }
#define EV_HDR   0xE1  /* header line handed to process_*_header: EV_HDR bytes EV_END */
#define EV_END   0xE2
#define EV_HEADERS 0xE3 /* htp_tx_state_*_headers */
#define EV_BODY  0xE4  /* body data: EV_BODY bytes EV_END */
#define EV_EOB   0xE5  /* body NULL call */
#define EV_LINE  0xE6  /* request/response line: EV_LINE bytes EV_END */
#define EV_COMPLETE 0xE7
#define EV_START 0xE8
#define EV_TXCREATE 0xE9
#define EV_TRAILER 0xEA
#define EV_REST  0xEB  /* bytes left unread for the successor state */
#endif

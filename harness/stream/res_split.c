/* C03 (response side): two-run differential on the REAL response stream layer. Run 0 delivers the
 * fragment in one call, run 1 cuts it at CUT; the driver's DATA / DATA_BUFFER branch is the driver's own
 * code (unity include). Layers B/C are recorders. The two event logs (every line handed to a
 * line/header processor, every body byte, every tx event, the bytes left for the successor state)
 * must be equal. SHAPE fixes the positions of CR LF : SP; x = field byte, y = any byte. */
#include "res_unity.h"
#include "evlog.h"
#ifndef SHAPE
#define SHAPE "xx\r\n\r\ny"
#endif
#ifndef START
#define START 1   /* 1 = RES_HEADERS, 2 = RES_LINE, 3 = RES_FINALIZE */
#endif
#ifndef KF_MODE_F1_lfcr_at_cut
#define KF_MODE_F1_lfcr_at_cut 0
#endif
#ifndef KF_MODE_C03_res_fold_at_cut
#define KF_MODE_C03_res_fold_at_cut 0
#endif
#ifndef KF_MODE_C03_res_finalize_unread
#define KF_MODE_C03_res_finalize_unread 0
#endif
static const char shape[]=SHAPE;
#define N (sizeof(shape)-1)
unsigned verif_nlog;
void htp_log(htp_connp_t *connp, const char *file, int line, enum htp_log_level_t level, int code, const char *fmt, ...){ verif_nlog++; }
static htp_cfg_t CFG; static htp_conn_t CONN; static htp_connp_t C[2]; static htp_tx_t TX[2];
static int rec_header(htp_connp_t *c, unsigned char *d, size_t l){ ev(EV_HDR); evbytes(d,l); ev(EV_END); return HTP_OK; }
static int rec_parse_line(htp_connp_t *c){ return HTP_OK; }
htp_status_t htp_tx_state_response_line(htp_tx_t *tx){ ev(EV_LINE); evbytes(bstr_ptr(tx->response_line),bstr_len(tx->response_line)); ev(EV_END); return HTP_OK; }
htp_status_t htp_tx_res_process_body_data_ex(htp_tx_t *tx, const void *data, size_t len){ if(data){ ev(EV_BODY); evbytes(data,len); ev(EV_END); } else ev(EV_EOB); return HTP_OK; }
htp_status_t htp_tx_state_response_complete_ex(htp_tx_t *tx, int h){ ev(EV_COMPLETE); tx->connp->out_state=htp_connp_RES_IDLE; return HTP_OK; }
htp_status_t htp_tx_state_response_headers(htp_tx_t *tx){ ev(EV_HEADERS); return HTP_OK; }
htp_status_t htp_tx_state_response_start(htp_tx_t *tx){ ev(EV_START); tx->connp->out_state=htp_connp_RES_LINE; tx->response_progress=HTP_RESPONSE_LINE; return HTP_OK; }
htp_status_t htp_tx_state_request_complete(htp_tx_t *tx){ return HTP_OK; }
htp_tx_t *htp_connp_tx_create(htp_connp_t *c){ return NULL; }
void htp_conn_track_outbound_data(htp_conn_t *conn, size_t len, const htp_time_t *t){ }
htp_status_t htp_hook_run_all(htp_hook_t *hook, void *user_data){ if(hook==(htp_hook_t*)&CONN) ev(EV_TRAILER); return HTP_OK; }
void *htp_table_get_c(const htp_table_t *t, const char *k){ return NULL; } size_t htp_table_size(const htp_table_t *t){ return 0; }
void *htp_table_get_index(const htp_table_t *t, size_t i, bstr **k){ return NULL; } void htp_table_clear(htp_table_t *t){ }
void *htp_list_array_get(const htp_list_array_t *l, size_t idx){ return &TX[R]; }
static int done[2];
/* one driver call: the states a fragment of this START can traverse, each at most once and in their only possible order */
#define STEP(S) if(!stop && !done[R] && c->out_state==S){ htp_status_t rc=S(c); \
        if(rc==HTP_OK){ c->out_state_previous=c->out_state; } \
        else { assert(rc==HTP_DATA||rc==HTP_DATA_BUFFER); htp_connp_res_receiver_send_data(c,0); if(rc==HTP_DATA_BUFFER){ htp_status_t b=htp_connp_res_buffer(c); assert(b==HTP_OK); } stop=1; } }
static void feed(htp_connp_t *c, unsigned char *data, size_t len){
    c->out_current_data=data; c->out_current_len=(int64_t)len; c->out_current_read_offset=0; c->out_current_consume_offset=0; c->out_current_receiver_offset=0;
    int stop=0;
    if(done[R]){ evbytes(data,len); return; }      /* the fragment's states are finished: everything else belongs to the successor state */
#if START==3
    STEP(htp_connp_RES_FINALIZE) STEP(htp_connp_RES_IDLE)
#endif
#if START>=2
    STEP(htp_connp_RES_LINE)
#endif
#if START<=2 && !defined(NOHDR)
    STEP(htp_connp_RES_HEADERS)
#endif
    if(!stop && !done[R]){ done[R]=1; ev(EV_REST); evbytes(data+c->out_current_read_offset,len-(size_t)c->out_current_read_offset); }
}
static void run(int r, unsigned char *buf, size_t len, size_t cut){
    R=r; htp_connp_t *c=&C[r]; htp_tx_t *tx=&TX[r];
    c->cfg=&CFG; c->conn=&CONN; c->out_tx=tx; tx->connp=c; tx->cfg=&CFG; tx->conn=&CONN;
    tx->response_protocol_number=HTP_PROTOCOL_1_1; c->out_status=HTP_STREAM_DATA; c->in_status=HTP_STREAM_DATA;
#if START==1
    tx->response_progress=HTP_RESPONSE_HEADERS; c->out_state=htp_connp_RES_HEADERS;
#elif START==2
    tx->response_progress=HTP_RESPONSE_LINE; c->out_state=htp_connp_RES_LINE;
#else
    tx->response_progress=HTP_RESPONSE_BODY; tx->response_transfer_coding=HTP_CODING_IDENTITY; c->out_state=htp_connp_RES_FINALIZE;
#endif
    c->out_state_previous=c->out_state;
    if(cut==0) feed(c,buf,len); else { feed(c,buf,cut); feed(c,buf+cut,len-cut); }
    ev(EV_END); evbytes((unsigned char*)&tx->flags,2);
}
void harness(void){
    CFG.field_limit_hard=18000; CFG.process_response_header=rec_header; CFG.parse_response_line=rec_parse_line; CFG.server_personality=HTP_SERVER_GENERIC; CFG.hook_response_trailer=(htp_hook_t*)&CONN;
    unsigned char buf[N];
    for(size_t i=0;i<N;i++){ char s=shape[i]; unsigned char b;
        if(s=='x'){ b=in_u8(); __CPROVER_assume(b!='\r'&&b!='\n'&&b!=0&&b!=':'&&b!=' '&&b!='\t'); }      /* field byte */
        else if(s=='y'){ b=in_u8(); }                                                                      /* arbitrary byte (e.g. first body byte) */
        else if(s=='d'){ b=in_u8(); __CPROVER_assume(b>='0'&&b<='9'); }
        else b=(unsigned char)s;
        buf[i]=b; }
    size_t cut=CUT;
    /* known findings, by (shape, cut, byte) predicate */
    KF_GATE(KF_MODE_F1_lfcr_at_cut, cut>=2 && buf[cut-1]=='\r' && buf[cut]=='\n' && cut+1<N && buf[cut+1]=='\r' && !(cut+2<N && buf[cut+2]=='\n'));
    /* response folding is decided on the peeked next byte even when the chunk ends there (the request side defers): a folded
     * response header whose continuation line starts a new chunk is handed on as two headers */
    KF_GATE(KF_MODE_C03_res_fold_at_cut, START<=2 && cut>=1 && buf[cut-1]=='\n' && (buf[cut]==' '||buf[cut]=='\t'));
    /* RES_FINALIZE un-reads the probed status line of the next response but keeps the part already moved to out_buf: when the
     * line is cut, RES_LINE sees the second part twice */
    { size_t eol=0; while(eol<N && buf[eol]!='\n' && buf[eol]!='\r') eol++; KF_GATE(KF_MODE_C03_res_finalize_unread, START==3 && cut>=1 && cut<eol); }
    run(0,buf,N,0); run(1,buf,N,cut);
    assert(LOGN[0]==LOGN[1]);
    for(size_t i=0;i<LOGSZ;i++) if(i<LOGN[0]) assert(LOG[0][i]==LOG[1][i]);
    VERIF_COVER(NEV[0]>=3, "at least three events recorded");
    VERIF_WITNESS();
}

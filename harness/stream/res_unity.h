#ifndef RES_UNITY_H
#define RES_UNITY_H
#include "verif.h"
#include "fixed_malloc.h"
#define malloc verif_fixed_malloc
#define realloc verif_fixed_realloc
#include "htp_response.c"
#undef malloc
#undef realloc
#endif

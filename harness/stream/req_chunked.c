/* C06.chunk + C03 (chunked framing): a GENERATED chunked body (symbolic chunk size 1..3, optional
 * extension, symbolic payload incl. CR/LF/NUL, terminating 0-chunk) is run through the REAL
 * REQ_BODY_CHUNKED_LENGTH/DATA/DATA_END states and the driver's own buffering code, whole and split at
 * a symbolic cut: the recorded body equals the payload, message_len equals the bytes taken from the
 * wire, the byte after the terminating chunk line is left unread, and both deliveries agree. */
#include "req_unity.h"
#ifndef MAXSZ
#define MAXSZ 3
#endif
#define TOT (1+2+2+MAXSZ+2+1+2+1)
unsigned verif_nlog;
void htp_log(htp_connp_t *connp, const char *file, int line, enum htp_log_level_t level, int code, const char *fmt, ...){ verif_nlog++; }
static unsigned char BODY[2][MAXSZ+2]; static size_t BN[2]; static int R;
htp_status_t htp_tx_req_process_body_data_ex(htp_tx_t *tx, const void *data, size_t len){ const unsigned char *p=data; if(p) for(size_t i=0;i<len;i++){ assert(BN[R]<MAXSZ+2); BODY[R][BN[R]++]=p[i]; } return HTP_OK; }
htp_status_t htp_tx_state_request_headers(htp_tx_t *tx){ return HTP_OK; }
htp_status_t htp_tx_state_request_complete(htp_tx_t *tx){ return HTP_OK; } htp_status_t htp_tx_state_request_line(htp_tx_t *tx){ return HTP_OK; }
htp_status_t htp_tx_state_request_start(htp_tx_t *tx){ return HTP_OK; } htp_tx_t *htp_connp_tx_create(htp_connp_t *c){ return NULL; }
void htp_conn_track_inbound_data(htp_conn_t *conn, size_t len, const htp_time_t *t){ }
htp_status_t htp_hook_run_all(htp_hook_t *hook, void *user_data){ return HTP_OK; }
static htp_cfg_t CFG; static htp_conn_t CONN; static htp_connp_t C[2]; static htp_tx_t TX[2];
/* the driver's loop for the three chunked states (return-code mapping as in htp_connp_req_data) */
static void feed(htp_connp_t *c, unsigned char *data, size_t len){
    c->in_current_data=data; c->in_current_len=(int64_t)len; c->in_current_read_offset=0; c->in_current_consume_offset=0; c->in_current_receiver_offset=0;
    for(int k=0;k<8;k++){ htp_status_t rc;
        if(c->in_state==htp_connp_REQ_BODY_CHUNKED_LENGTH) rc=htp_connp_REQ_BODY_CHUNKED_LENGTH(c);
        else if(c->in_state==htp_connp_REQ_BODY_CHUNKED_DATA) rc=htp_connp_REQ_BODY_CHUNKED_DATA(c);
        else if(c->in_state==htp_connp_REQ_BODY_CHUNKED_DATA_END) rc=htp_connp_REQ_BODY_CHUNKED_DATA_END(c);
        else return;
        if(rc==HTP_OK) continue;
        assert(rc==HTP_DATA||rc==HTP_DATA_BUFFER);
        if(rc==HTP_DATA_BUFFER){ htp_status_t b=htp_connp_req_buffer(c); assert(b==HTP_OK); }
        return; }
    assert(0);
}
static size_t rest[2];
static void run(int r, unsigned char *buf, size_t len, size_t cut){
    R=r; htp_connp_t *c=&C[r]; htp_tx_t *tx=&TX[r];
    c->cfg=&CFG; c->conn=&CONN; c->in_tx=tx; tx->connp=c; tx->cfg=&CFG; tx->conn=&CONN;
    tx->request_progress=HTP_REQUEST_BODY; c->in_state=htp_connp_REQ_BODY_CHUNKED_LENGTH; c->in_status=HTP_STREAM_DATA;
    if(cut==0||cut>=len){ feed(c,buf,len); rest[r]=len-(size_t)c->in_current_read_offset; }
    else { feed(c,buf,cut); assert(c->in_current_read_offset==(int64_t)cut || c->in_state==htp_connp_REQ_HEADERS); 
           if(c->in_state==htp_connp_REQ_HEADERS){ rest[r]=len-(size_t)c->in_current_read_offset; } else { feed(c,buf+cut,len-cut); rest[r]=len-cut-(size_t)c->in_current_read_offset; } }
}
void harness(void){
    CFG.field_limit_hard=18000;
    unsigned char buf[TOT]; size_t n=0;
    /* framing shape and cut are constants per query (a symbolic cut or size makes every offset symbolic: 10x dearer, DESIGN.md 1) */
    unsigned sz=SZ; unsigned ext=EXT;
    buf[n++]=(unsigned char)('0'+sz); if(ext){ buf[n++]=';'; buf[n++]='x'; } buf[n++]='\r'; buf[n++]='\n';
    unsigned char pay[MAXSZ]; for(unsigned i=0;i<MAXSZ;i++){ pay[i]=in_u8(); if(i<sz) buf[n++]=pay[i]; }
    buf[n++]='\r'; buf[n++]='\n'; buf[n++]='0'; buf[n++]='\r'; buf[n++]='\n';
    size_t framed=n;
    buf[n++]=in_u8();                       /* first byte of what follows (trailer / next message): must stay unread */
    size_t cut=CUT; __CPROVER_assume(cut<n);
    run(0,buf,n,0); run(1,buf,n,cut);
    for(int r=0;r<2;r++){
        assert(BN[r]==sz); for(unsigned i=0;i<MAXSZ;i++) if(i<sz) assert(BODY[r][i]==pay[i]);       /* exactly the payload, once, in order */
        assert(TX[r].request_message_len==(int64_t)framed);                                           /* bytes taken from the wire */
        assert(C[r].in_state==htp_connp_REQ_HEADERS && TX[r].request_progress==HTP_REQUEST_TRAILER);
        assert(rest[r]==1);                                                                           /* the following byte is not touched */
        assert(C[r].in_buf==NULL);
    }
    VERIF_WITNESS();
}

/* C10.buf: the REAL htp_connp_req_buffer / htp_connp_res_buffer (static functions, unity include) from a
 * symbolic retained state: refuses (HTP_ERROR) iff carried bytes + pending header + new remainder exceed
 * field_limit_hard, otherwise the new carry buffer is old ++ remainder and consume catches up with read. */
#ifdef RES
#include "res_unity.h"
#define BUF out_buf
#define BUFSZ out_buf_size
#define HDR out_header
#define CUR(x) out_current_##x
#define TXP out_tx
#define THE_BUFFER htp_connp_res_buffer
#else
#include "req_unity.h"
#define BUF in_buf
#define BUFSZ in_buf_size
#define HDR in_header
#define CUR(x) in_current_##x
#define TXP in_tx
#define THE_BUFFER htp_connp_req_buffer
#endif
#ifndef N
#define N 4
#endif
#ifndef B
#define B 3
#endif
unsigned verif_nlog;
void htp_log(htp_connp_t *connp, const char *file, int line, enum htp_log_level_t level, int code, const char *fmt, ...){ verif_nlog++; }
void harness(void){
    static htp_cfg_t CFG; static htp_connp_t C; static htp_tx_t TX; static htp_conn_t CONN;
    C.cfg=&CFG; C.conn=&CONN; C.TXP=&TX; TX.cfg=&CFG; TX.connp=&C;
    size_t limit=in_size(); CFG.field_limit_hard=limit;
    unsigned char *chunk=malloc(N); __CPROVER_assume(chunk); for(size_t i=0;i<N;i++) chunk[i]=in_u8();
    size_t len=in_size_le(N); int64_t ro=(int64_t)in_size_le(len), co=(int64_t)in_size_le((size_t)ro);
    C.CUR(data)=chunk; C.CUR(len)=(int64_t)len; C.CUR(read_offset)=ro; C.CUR(consume_offset)=co;
    unsigned char old[B]; size_t bs=0;
    if(in_bool()){ bs=in_size_le(B); __CPROVER_assume(bs>=1); C.BUF=malloc(FM_CAP); __CPROVER_assume(C.BUF); for(size_t i=0;i<B;i++){ old[i]=in_u8(); C.BUF[i]=old[i]; } C.BUFSZ=bs; }
    /* pending (possibly folded) header: only its length matters; lengths around the interesting sums */
    size_t hl=0; if(in_bool()){ hl=in_size(); __CPROVER_assume(hl<=((size_t)1<<40));   /* far above any reachable header length (HTP_MAX_HEADER_FOLDED + one line) */ static bstr HB; HB.len=hl; HB.size=hl; C.HDR=&HB; }
    size_t rem=(size_t)(ro-co);
    htp_status_t rc=THE_BUFFER(&C);
#ifndef RES
    if(rem==0){ assert(rc==HTP_OK && C.BUFSZ==bs); }
    else
#endif
    {
        /* mathematical sum, no wrap-around */
        unsigned __int128 total=(unsigned __int128)bs+rem+hl;
        if(total>limit){ assert(rc==HTP_ERROR); assert(C.BUFSZ==bs); }
        else { assert(rc==HTP_OK); assert(C.BUFSZ==bs+rem); assert(C.CUR(consume_offset)==ro);
               for(size_t i=0;i<B;i++) if(i<bs) assert(C.BUF[i]==old[i]);
               for(size_t i=0;i<N;i++) if(i<rem) assert(C.BUF[bs+i]==chunk[(size_t)co+i]); }
    }
    VERIF_COVER(rc==HTP_ERROR && hl>limit, "pending header alone exceeds the limit");
    VERIF_COVER(rc==HTP_OK && bs>0 && rem>0, "buffer grown");
    VERIF_WITNESS();
}

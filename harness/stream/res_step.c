/* One real response-side state function called directly from a symbolic INV_A pre-state.
 * Serves C01.state, C09.G2, C06 (identity / chunked / close-delimited consumption), C16 and C09.G3
 * (RES_BODY_DETERMINE), C05.mono. */
#include "res_unity.h"
#include "evlog.h"
#ifndef N
#define N 4
#endif
#ifndef B
#define B 2
#endif
#ifndef H
#define H 2
#endif
#ifndef KF_MODE_C09_stop_overwritten
#define KF_MODE_C09_stop_overwritten 0
#endif
unsigned verif_nlog;
void htp_log(htp_connp_t *connp, const char *file, int line, enum htp_log_level_t level, int code, const char *fmt, ...){ verif_nlog++; }
static unsigned n_stub;
static unsigned char *CHUNK;
static unsigned char BODY[N+B+6]; static size_t BODYN; static unsigned n_body, n_eob, n_complete, n_headers, n_line, n_start, n_create, n_hdr, n_recv, n_reqcomplete, n_trailer;
static int rc_body, rc_complete, rc_headers;
static int stub_rc(void){ unsigned v=in_range(0,2); return v==0?HTP_OK:(v==1?HTP_ERROR:HTP_STOP); }
static htp_connp_t C; static htp_tx_t TX; static htp_cfg_t CFG; static htp_conn_t CONN;
static htp_header_t H_CL, H_TE, H_CT, H_EXP; static int has_cl, has_te, has_ct, has_exp;
static void check_span(const unsigned char *p, size_t l){ if(l>0){ assert(p!=NULL); assert(__CPROVER_r_ok(p,l)); } }
htp_status_t htp_tx_res_process_body_data_ex(htp_tx_t *tx, const void *data, size_t len){ n_stub++; assert(tx==&TX);
    if(data!=NULL){ n_body++; check_span(data,len); const unsigned char *p=data; for(size_t i=0;i<len;i++){ assert(BODYN<sizeof BODY); BODY[BODYN++]=p[i]; } } else { n_eob++; assert(len==0); }
    rc_body=stub_rc(); return rc_body; }
htp_status_t htp_tx_state_response_complete_ex(htp_tx_t *tx, int hybrid){ n_stub++; n_complete++; assert(tx==&TX); unsigned v=in_range(0,3); rc_complete=v==0?HTP_OK:(v==1?HTP_ERROR:(v==2?HTP_STOP:HTP_DATA_OTHER)); if(rc_complete==HTP_OK){ C.out_state=htp_connp_RES_IDLE; } return rc_complete; }
htp_status_t htp_tx_state_response_headers(htp_tx_t *tx){ n_stub++; n_headers++; assert(tx==&TX); rc_headers=stub_rc(); return rc_headers; }
htp_status_t htp_tx_state_response_line(htp_tx_t *tx){ n_stub++; n_line++; return stub_rc(); }
htp_status_t htp_tx_state_response_start(htp_tx_t *tx){ n_stub++; n_start++; C.out_state=htp_connp_RES_LINE; tx->response_progress=HTP_RESPONSE_LINE; return stub_rc(); }
htp_status_t htp_tx_state_request_complete(htp_tx_t *tx){ n_stub++; n_reqcomplete++; return HTP_OK; }
htp_tx_t *htp_connp_tx_create(htp_connp_t *c){ n_stub++; n_create++; return in_bool()?&TX:NULL; }
/* C10: the only door to a new transaction is htp_connp_tx_create (which enforces max_tx); a state function that builds one directly bypasses the limit */
static unsigned n_direct_create;
htp_tx_t *htp_tx_create(htp_connp_t *c){ n_direct_create++; return &TX; }
void htp_connp_in_reset(htp_connp_t *c){ n_stub++; }
void htp_conn_track_outbound_data(htp_conn_t *conn, size_t len, const htp_time_t *t){ }
htp_status_t htp_hook_run_all(htp_hook_t *hook, void *user_data){ if(hook==(htp_hook_t*)&CONN){ n_trailer++; n_stub++; } else { n_recv++; htp_tx_data_t *d=user_data; check_span(d->data,d->len); } return stub_rc(); }
static int rec_header(htp_connp_t *c, unsigned char *d, size_t l){ n_stub++; n_hdr++; check_span(d,l); return stub_rc(); }
static int rec_parse_line(htp_connp_t *c){ n_stub++; assert(c->out_tx->response_line!=NULL); return stub_rc(); }
/* abstract header tables: the four fields RES_BODY_DETERMINE asks for */
void *htp_table_get_c(const htp_table_t *t, const char *k){ if(k[0]=='e') return has_exp?&H_EXP:NULL; if(k[0]=='t') return has_te?&H_TE:NULL; if(k[8]=='l') return has_cl?&H_CL:NULL; return has_ct?&H_CT:NULL; }
size_t htp_table_size(const htp_table_t *t){ return 0; }
void *htp_table_get_index(const htp_table_t *t, size_t i, bstr **k){ return NULL; }
static htp_table_t T_REQ, T_RES; static unsigned n_clear_res, n_clear_other;
void htp_table_clear(htp_table_t *t){ if(t==&T_RES) n_clear_res++; else n_clear_other++; }
/* the transaction layer's own "forget the headers" helpers: the response side may only ever forget RESPONSE headers */
htp_status_t htp_tx_res_set_headers_clear(htp_tx_t *tx){ n_clear_res++; return HTP_OK; }
htp_status_t htp_tx_req_set_headers_clear(htp_tx_t *tx){ n_clear_other++; return HTP_OK; }
void *htp_list_array_get(const htp_list_array_t *l, size_t idx){ return in_bool()?&TX:NULL; }

#define S_IDLE 1
#define S_LINE 2
#define S_HEADERS 3
#define S_BODY_DETERMINE 4
#define S_IDENTITY_CL 5
#define S_IDENTITY_CLOSE 6
#define S_CHUNKED_LENGTH 7
#define S_CHUNKED_DATA 8
#define S_CHUNKED_DATA_END 9
#define S_FINALIZE 10
#if STATE==1
#define THE_STATE htp_connp_RES_IDLE
#elif STATE==2
#define THE_STATE htp_connp_RES_LINE
#elif STATE==3
#define THE_STATE htp_connp_RES_HEADERS
#elif STATE==4
#define THE_STATE htp_connp_RES_BODY_DETERMINE
#elif STATE==5
#define THE_STATE htp_connp_RES_BODY_IDENTITY_CL_KNOWN
#elif STATE==6
#define THE_STATE htp_connp_RES_BODY_IDENTITY_STREAM_CLOSE
#elif STATE==7
#define THE_STATE htp_connp_RES_BODY_CHUNKED_LENGTH
#elif STATE==8
#define THE_STATE htp_connp_RES_BODY_CHUNKED_DATA
#elif STATE==9
#define THE_STATE htp_connp_RES_BODY_CHUNKED_DATA_END
#else
#define THE_STATE htp_connp_RES_FINALIZE
#endif
typedef htp_status_t (*state_fn)(htp_connp_t*);
static bstr *mk(const char *s, size_t cap){ bstr *b=bstr_alloc(cap); __CPROVER_assume(b); size_t l=strlen(s); memcpy(bstr_ptr(b),s,l); bstr_adjust_len(b,l); return b; }

void harness(void){
    C.cfg=&CFG; C.conn=&CONN; C.out_tx=&TX; C.in_tx=&TX; TX.connp=&C; TX.cfg=&CFG; TX.conn=&CONN;
    CFG.field_limit_hard=in_size(); CFG.process_response_header=rec_header; CFG.parse_response_line=rec_parse_line;
    CFG.server_personality=in_range(0,9); CFG.hook_response_trailer=(htp_hook_t*)&CONN;
    CHUNK=malloc(N); __CPROVER_assume(CHUNK!=NULL);
#ifdef EXACT
    size_t len=N;
#else
    size_t len=in_size_le(N);
#endif
    for(size_t i=0;i<N;i++) CHUNK[i]=in_u8();
    int64_t ro=(int64_t)in_size_le(len), co=(int64_t)in_size_le((size_t)ro);
    C.out_current_data=CHUNK; C.out_current_len=(int64_t)len; C.out_current_read_offset=ro; C.out_current_consume_offset=co;
    C.out_current_receiver_offset=(int64_t)in_size_le((size_t)ro);
    C.out_stream_offset=(int64_t)in_size_le(1000); C.out_next_byte=(int)in_range(0,255);
    if(in_bool()){ size_t bs=in_size_le(B); __CPROVER_assume(bs>=1); C.out_buf=malloc(FM_CAP); __CPROVER_assume(C.out_buf); for(size_t i=0;i<B;i++) C.out_buf[i]=in_u8(); C.out_buf_size=bs; }
    if(in_bool()){ size_t hl=in_size_le(H); C.out_header=bstr_alloc(H); __CPROVER_assume(C.out_header); for(size_t i=0;i<H;i++) bstr_ptr(C.out_header)[i]=in_u8(); bstr_adjust_len(C.out_header,hl); }
    unsigned st=in_range(HTP_STREAM_NEW,HTP_STREAM_DATA); __CPROVER_assume(st!=HTP_STREAM_ERROR && st!=HTP_STREAM_STOP && st!=HTP_STREAM_TUNNEL);
    C.out_status=st; unsigned ist=in_range(HTP_STREAM_NEW,HTP_STREAM_DATA); C.in_status=ist;
    if(in_bool()) C.out_data_receiver_hook=(htp_hook_t*)&CFG;
    TX.request_method_number=in_range(HTP_M_UNKNOWN,HTP_M_INVALID);
    TX.request_progress=in_range(HTP_REQUEST_NOT_STARTED,HTP_REQUEST_COMPLETE);
    TX.response_progress=in_range(HTP_RESPONSE_NOT_STARTED,HTP_RESPONSE_COMPLETE);
    TX.response_status_number=(int)in_range(0,700); TX.response_protocol_number=(int)in_range(0,101)-1;
    TX.response_message_len=(int64_t)in_size_le(1000); TX.seen_100continue=in_range(0,2); TX.request_headers=&T_REQ; TX.response_headers=&T_RES;
    C.out_body_data_left=(int64_t)in_size_le(N+2); C.out_chunked_length=(int64_t)in_size_le(N+2); C.out_content_length=(int64_t)in_size_le(N+3);
    C.in_content_length=(int64_t)in_size_le(3); C.in_body_data_left=(int64_t)in_size_le(3);
    C.out_next_tx_index=in_size_le(5); C.out_data_other_at_tx_end=in_bool();
    TX.flags=in_ull();
    state_fn S=THE_STATE; C.out_state=S; C.out_state_previous=S; C.in_state=htp_connp_REQ_CONNECT_WAIT_RESPONSE;
    /* INV_A: a closed direction only ever sees the internal zero-length finalisation call (htp_connp_close); data offered
     * after close is outside the claim (see DESIGN.md, C09 notes) */
    if(st==HTP_STREAM_CLOSED) __CPROVER_assume(len==0);
#if STATE==S_CHUNKED_LENGTH || STATE==S_HEADERS
    /* a carry buffer exists only because the previous call ended inside this line: the new chunk is still untouched */
    if(C.out_buf!=NULL) __CPROVER_assume(ro==0);
#endif
    /* INV_A, state-specific part */
#if STATE==S_IDLE || STATE==S_LINE
    __CPROVER_assume(co==ro || ro<(int64_t)len);
#elif STATE==S_IDENTITY_CLOSE
    /* entered after the invalid-chunk-length rewind with consume > read possible; the state never looks at consume */
    C.out_current_consume_offset=(int64_t)in_size_le(N+B+2);
#else
    __CPROVER_assume(co==ro);
#endif
#if STATE==S_LINE
    __CPROVER_assume(TX.response_progress==HTP_RESPONSE_LINE);
#elif STATE==S_HEADERS
    __CPROVER_assume(TX.response_progress==HTP_RESPONSE_HEADERS||TX.response_progress==HTP_RESPONSE_TRAILER);
#elif STATE==S_BODY_DETERMINE
    __CPROVER_assume(TX.response_progress==HTP_RESPONSE_HEADERS);
    has_cl=in_bool(); has_te=in_bool(); has_ct=in_bool(); has_exp=in_bool();
    { unsigned char d=in_u8(); __CPROVER_assume(d>='0'&&d<='9'||d=='x'); char v[2]={(char)d,0}; H_CL.value=mk(v,4); if(in_bool()) H_CL.flags|=HTP_FIELD_REPEATED; }
    H_TE.value=mk(in_bool()?"chunked":"gzip",8); H_CT.value=mk(in_bool()?"text/html; x":"multipart/byteranges",24); H_EXP.value=mk(in_bool()?"100-continue":"no",14);
#elif STATE==S_IDENTITY_CL
    __CPROVER_assume(TX.response_progress==HTP_RESPONSE_BODY && C.out_body_data_left>=1);
#elif STATE==S_IDENTITY_CLOSE || STATE==S_CHUNKED_LENGTH || STATE==S_CHUNKED_DATA_END
    __CPROVER_assume(TX.response_progress==HTP_RESPONSE_BODY);
#elif STATE==S_CHUNKED_DATA
    __CPROVER_assume(TX.response_progress==HTP_RESPONSE_BODY && C.out_chunked_length>=1);
#endif
    unsigned char chunk0[N]; for(size_t i=0;i<N;i++) chunk0[i]=CHUNK[i];
    int64_t so0=C.out_stream_offset, ml0=TX.response_message_len, left0=C.out_body_data_left, ck0=C.out_chunked_length; unsigned st0=C.out_status;
    int had_buf=C.out_buf!=NULL; size_t bs0=C.out_buf_size; unsigned prog0=TX.response_progress; unsigned s100=TX.seen_100continue; int64_t in_cl0=C.in_content_length, in_left0=C.in_body_data_left;
#if STATE==S_BODY_DETERMINE
    /* known finding: an inbound STOP is overwritten by the 407 / refused-CONNECT / 101 paths */
    KF_GATE(KF_MODE_C09_stop_overwritten, ist==HTP_STREAM_STOP && ((TX.request_method_number==HTP_M_CONNECT && !(TX.response_status_number>=200&&TX.response_status_number<=299)) || (TX.response_status_number==101 && !has_te && !has_cl)));
#endif

    htp_status_t rc=THE_STATE(&C);

    int64_t ro1=C.out_current_read_offset, co1=C.out_current_consume_offset;
    assert(rc==HTP_OK||rc==HTP_DATA||rc==HTP_DATA_BUFFER||rc==HTP_DATA_OTHER||rc==HTP_ERROR||rc==HTP_STOP);
#if STATE==S_IDENTITY_CLOSE
    assert(0<=ro1 && ro1<=(int64_t)len); co=C.out_current_consume_offset-(ro1-ro);
#else
    /* documented rewind: an invalid chunk length un-reads the size line so that the identity-until-close state sees it;
     * consume is not rewound (noted anomaly: the carried prefix of that line stays in out_buf) */
    if(STATE==S_CHUNKED_LENGTH && C.out_state==htp_connp_RES_BODY_IDENTITY_STREAM_CLOSE){ assert(0<=ro1 && ro1<=(int64_t)len && rc==HTP_OK); }
    else { assert(0<=co1 && co1<=ro1 && ro1<=(int64_t)len); if(rc==HTP_DATA) assert(co1==ro1); }
#endif
    if(rc==HTP_DATA||rc==HTP_DATA_BUFFER) assert(ro1==(int64_t)len);
    assert((C.out_buf==NULL)==(C.out_buf_size==0));
    assert(C.out_current_data==CHUNK && C.out_current_len==(int64_t)len);
    for(size_t i=0;i<N;i++) assert(CHUNK[i]==chunk0[i]);
    if(rc==HTP_STOP) assert(n_stub+n_recv>0);
    if(rc==HTP_DATA_OTHER) assert(n_complete>0);
    if(rc==HTP_OK) assert(C.out_state!=S || ro1>ro || co1>co || n_stub>0 || (had_buf && C.out_buf==NULL) || C.out_status!=st0);
#if STATE!=S_IDLE
    /* C05.mono: progress never moves backwards except the documented restart after an interim 100 */
    assert(TX.response_progress>=prog0 || (TX.response_status_number==100 && TX.response_progress==HTP_RESPONSE_LINE && TX.seen_100continue==s100+1 && STATE==S_BODY_DETERMINE));
#endif
    /* C09.G3: the response side never revives a request direction that has failed or was stopped */
    if(ist==HTP_STREAM_ERROR) assert(C.in_status==HTP_STREAM_ERROR);
    if(ist==HTP_STREAM_STOP) assert(C.in_status==HTP_STREAM_STOP);
    assert(n_direct_create==0);      /* C10: no transaction is created behind htp_connp_tx_create's back */

#if STATE==S_IDENTITY_CL
    { size_t avail=len-(size_t)ro, k=(size_t)left0<avail?(size_t)left0:avail;
      if(st0==HTP_STREAM_CLOSED){ assert(n_body==0 && n_eob==1 && C.out_state==htp_connp_RES_FINALIZE && rc==rc_body && ro1==ro); }
      else if(k==0){ assert(rc==HTP_DATA && n_stub==0 && ro1==ro); }
      else { assert(n_body==1 && BODYN==k); for(size_t i=0;i<N;i++) if(i<k) assert(BODY[i]==chunk0[ro+i]);
        if(n_eob==0 && rc_body!=HTP_OK){ assert(rc==rc_body && ro1==ro && co1==co && C.out_body_data_left==left0); }
        else { assert(ro1==ro+(int64_t)k && co1==co+(int64_t)k && C.out_body_data_left==left0-(int64_t)k && C.out_stream_offset==so0+(int64_t)k);
               if(left0-(int64_t)k==0){ assert(n_eob==1 && rc==rc_body && C.out_state==htp_connp_RES_FINALIZE); } else { assert(rc==HTP_DATA && n_eob==0 && C.out_state==S); } } }
      VERIF_COVER(k>0 && k<avail && rc==HTP_OK, "body ends inside the chunk"); }
#elif STATE==S_IDENTITY_CLOSE
    { size_t k=len-(size_t)ro;
      if(k>0){ assert(n_body==1 && BODYN==k); for(size_t i=0;i<N;i++) if(i<k) assert(BODY[i]==chunk0[ro+i]); } else assert(n_body==0);
      if(k>0 && rc_body!=HTP_OK){ assert(rc==rc_body && ro1==ro); }
      else { assert(ro1==(int64_t)len); if(st0==HTP_STREAM_CLOSED) assert(rc==HTP_OK && C.out_state==htp_connp_RES_FINALIZE); else assert(rc==HTP_DATA && C.out_state==S); } }
#elif STATE==S_CHUNKED_DATA
    { size_t avail=len-(size_t)ro, k=(size_t)ck0<avail?(size_t)ck0:avail;
      if(k==0){ assert(rc==HTP_DATA && n_stub==0 && ro1==ro); }
      else { assert(n_body==1 && BODYN==k); for(size_t i=0;i<N;i++) if(i<k) assert(BODY[i]==chunk0[ro+i]);
        if(rc_body!=HTP_OK){ assert(rc==rc_body && ro1==ro && C.out_chunked_length==ck0); }
        else { assert(ro1==ro+(int64_t)k && co1==co+(int64_t)k && C.out_chunked_length==ck0-(int64_t)k);
               if(ck0-(int64_t)k==0){ assert(rc==HTP_OK && C.out_state==htp_connp_RES_BODY_CHUNKED_DATA_END); } else assert(rc==HTP_DATA); } } }
#elif STATE==S_CHUNKED_DATA_END
    { size_t i=(size_t)ro; while(i<len && chunk0[i]!='\n') i++;
      assert(n_stub==0);
      if(i<len){ assert(rc==HTP_OK && ro1==(int64_t)i+1 && C.out_state==htp_connp_RES_BODY_CHUNKED_LENGTH); } else { assert(rc==HTP_DATA && ro1==(int64_t)len); }
      assert(co1-co==ro1-ro && TX.response_message_len==ml0+(ro1-ro)); }
#elif STATE==S_BODY_DETERMINE
    assert(ro1==ro && co1==co);
    if(rc==HTP_OK && C.out_state==htp_connp_RES_LINE){ assert(TX.response_status_number==100 && n_headers==0); }
    /* C02: an interim response makes the parser forget the interim RESPONSE fields, once; nothing the request reported is touched */
    assert(n_clear_other==0);
    if(STATE==S_BODY_DETERMINE && rc==HTP_OK && C.out_state==htp_connp_RES_LINE) assert(n_clear_res==1);
    else if(rc!=HTP_ERROR || n_headers) { assert(n_headers==1); }
    /* C04/C05: EVERY interim 100 (no TE, no positive CL) restarts at the status line - a second one must not complete the transaction */
    { int early2 = (TX.request_method_number==HTP_M_CONNECT && TX.response_status_number>=200 && TX.response_status_number<=299);
      int cl_pos = has_cl && bstr_ptr(H_CL.value)[0]>='1' && bstr_ptr(H_CL.value)[0]<='9';
      if(TX.response_status_number==100 && !has_te && !cl_pos && !early2){ assert(rc==HTP_OK && C.out_state==htp_connp_RES_LINE && TX.response_progress==HTP_RESPONSE_LINE && TX.seen_100continue==s100+1 && n_headers==0); } }
    /* C16: CONNECT 2xx => FINALIZE and wait; 101 without CL/TE => both directions tunnel */
    if(TX.request_method_number==HTP_M_CONNECT && TX.response_status_number>=200 && TX.response_status_number<=299){ assert(C.out_state==htp_connp_RES_FINALIZE && rc==rc_headers && C.in_status==ist && C.out_status==st0); }
    else if(TX.response_status_number==101 && !has_te && !has_cl){ assert(C.out_state==htp_connp_RES_FINALIZE && C.out_status==HTP_STREAM_TUNNEL && rc==rc_headers); if(ist!=HTP_STREAM_ERROR && ist!=HTP_STREAM_STOP) assert(C.in_status==HTP_STREAM_TUNNEL); }
    else if(TX.request_method_number==HTP_M_CONNECT){ if(ist!=HTP_STREAM_ERROR && ist!=HTP_STREAM_STOP) assert(C.in_status==HTP_STREAM_DATA); if(TX.response_status_number!=407) assert(C.out_data_other_at_tx_end==1); }
    else assert(C.in_status==ist);
    /* C06: the request body is cut short only for a 4xx answer to an Expect: 100-continue request whose body has not started */
    { int expect4xx = TX.response_status_number>=400 && TX.response_status_number<=499 && in_cl0>0 && in_left0==in_cl0 && has_exp && bstr_len(H_EXP.value)==12;
      int restart = (rc==HTP_OK && C.out_state==htp_connp_RES_LINE);
      int early = (TX.request_method_number==HTP_M_CONNECT && TX.response_status_number>=200 && TX.response_status_number<=299) || (TX.response_status_number==101 && !has_te && !has_cl);
      if(!restart && !early){ if(expect4xx) assert(C.in_state==htp_connp_REQ_FINALIZE); else assert(C.in_state==htp_connp_REQ_CONNECT_WAIT_RESPONSE); }
      VERIF_COVER(expect4xx && !restart && !early, "4xx answer to Expect: 100-continue"); }
    VERIF_COVER(rc==HTP_OK && C.out_state==htp_connp_RES_BODY_CHUNKED_LENGTH && (TX.flags&HTP_REQUEST_SMUGGLING), "TE chunked with CL");
    VERIF_COVER(rc==HTP_OK && C.out_state==htp_connp_RES_LINE, "interim 100 restart");
#elif STATE==S_IDLE
    if(ro>=(int64_t)len){ assert(rc==HTP_DATA && n_stub==0); }
    assert(ro1==ro && co1==co);
#elif STATE==S_HEADERS
    VERIF_COVER(n_hdr==2, "two header lines in one call"); VERIF_COVER(C.out_state==htp_connp_RES_BODY_DETERMINE, "end of header block");
#elif STATE==S_LINE
    VERIF_COVER(n_line==1, "status line complete"); VERIF_COVER(n_body==1, "first line treated as body");
#elif STATE==S_FINALIZE
    if(n_complete && st0!=HTP_STREAM_CLOSED) assert(n_body==0);
    VERIF_COVER(n_complete==1 && len>0 && ro<(int64_t)len, "next status line un-read"); VERIF_COVER(n_body==1, "unexpected body");
#elif STATE==S_CHUNKED_LENGTH
    VERIF_COVER(rc==HTP_OK && C.out_state==htp_connp_RES_BODY_CHUNKED_DATA, "chunk size parsed"); VERIF_COVER(rc==HTP_OK && C.out_state==htp_connp_RES_BODY_IDENTITY_STREAM_CLOSE, "invalid chunk size falls back to identity");
#endif
    VERIF_WITNESS();
}

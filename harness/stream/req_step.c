/* One real request-side state function called directly from a symbolic pre-state that satisfies the
 * stream-layer representation invariant INV_A. Serves C01.state (memory safety of every access,
 * validity of every pointer/len pair handed out), C09.G2 (state-function contract the driver relies
 * on), C06 (identity / chunked consumption), C16 (CONNECT states), C10 (buffer limit). */
#include "req_unity.h"
#include "evlog.h"
#ifndef N
#define N 4
#endif
#ifndef B
#define B 2
#endif
#ifndef H
#define H 2
#endif
unsigned verif_nlog;
void htp_log(htp_connp_t *connp, const char *file, int line, enum htp_log_level_t level, int code, const char *fmt, ...){ verif_nlog++; }
static unsigned n_stub;            /* number of layer-B / layer-C calls made by the state function */
static unsigned char *CHUNK; static size_t CHUNKLEN;
static unsigned char BODY[N+B+4]; static size_t BODYN; static unsigned n_body, n_complete, n_headers, n_line, n_start, n_create, n_hdr, n_recv;
static int rc_body, rc_complete, rc_headers;
static int stub_rc(void){ unsigned v=in_range(0,2); return v==0?HTP_OK:(v==1?HTP_ERROR:HTP_STOP); }
static htp_connp_t C; static htp_tx_t TX; static htp_cfg_t CFG; static htp_conn_t CONN;
/* a pointer/len pair handed to another layer must lie inside the chunk, the carry buffer or the pending header */
static void check_span(const unsigned char *p, size_t l){ if(l>0){ assert(p!=NULL); assert(__CPROVER_r_ok(p,l)); } }
htp_status_t htp_tx_req_process_body_data_ex(htp_tx_t *tx, const void *data, size_t len){ n_stub++; n_body++; assert(tx==&TX);
    if(data!=NULL){ check_span(data,len); const unsigned char *p=data; for(size_t i=0;i<len;i++){ assert(BODYN<sizeof BODY); BODY[BODYN++]=p[i]; } }
    rc_body=stub_rc(); return rc_body; }
htp_status_t htp_tx_state_request_complete(htp_tx_t *tx){ n_stub++; n_complete++; assert(tx==&TX); rc_complete=stub_rc(); if(rc_complete==HTP_OK){ C.in_state=htp_connp_REQ_IDLE; } return rc_complete; }
htp_status_t htp_tx_state_request_headers(htp_tx_t *tx){ n_stub++; n_headers++; assert(tx==&TX); rc_headers=stub_rc(); if(rc_headers==HTP_OK) C.in_state=htp_connp_REQ_CONNECT_CHECK; return rc_headers; }
htp_status_t htp_tx_state_request_line(htp_tx_t *tx){ n_stub++; n_line++; int r=stub_rc(); if(r==HTP_OK) C.in_state=htp_connp_REQ_PROTOCOL; return r; }
htp_status_t htp_tx_state_request_start(htp_tx_t *tx){ n_stub++; n_start++; C.in_state=htp_connp_REQ_LINE; tx->request_progress=HTP_REQUEST_LINE; return HTP_OK; }
htp_tx_t *htp_connp_tx_create(htp_connp_t *c){ n_stub++; n_create++; return in_bool()?&TX:NULL; }
void htp_conn_track_inbound_data(htp_conn_t *conn, size_t len, const htp_time_t *t){ }
htp_status_t htp_hook_run_all(htp_hook_t *hook, void *user_data){ n_recv++; htp_tx_data_t *d=user_data; check_span(d->data,d->len); return stub_rc(); }
static int rec_header(htp_connp_t *c, unsigned char *d, size_t l){ n_stub++; n_hdr++; check_span(d,l); return stub_rc(); }
static int rec_parse_line(htp_connp_t *c){ n_stub++; assert(c->in_tx->request_line!=NULL); return stub_rc(); }

typedef htp_status_t (*state_fn)(htp_connp_t*);
#define S_IDLE 1
#define S_LINE 2
#define S_PROTOCOL 3
#define S_HEADERS 4
#define S_CONNECT_CHECK 5
#define S_CONNECT_WAIT 6
#define S_CONNECT_PROBE 7
#define S_BODY_DETERMINE 8
#define S_BODY_IDENTITY 9
#define S_CHUNKED_LENGTH 10
#define S_CHUNKED_DATA 11
#define S_CHUNKED_DATA_END 12
#define S_FINALIZE 13
#define S_IGNORE_0_9 14
#if STATE==1
#define THE_STATE htp_connp_REQ_IDLE
#elif STATE==2
#define THE_STATE htp_connp_REQ_LINE
#elif STATE==3
#define THE_STATE htp_connp_REQ_PROTOCOL
#elif STATE==4
#define THE_STATE htp_connp_REQ_HEADERS
#elif STATE==5
#define THE_STATE htp_connp_REQ_CONNECT_CHECK
#elif STATE==6
#define THE_STATE htp_connp_REQ_CONNECT_WAIT_RESPONSE
#elif STATE==7
#define THE_STATE htp_connp_REQ_CONNECT_PROBE_DATA
#elif STATE==8
#define THE_STATE htp_connp_REQ_BODY_DETERMINE
#elif STATE==9
#define THE_STATE htp_connp_REQ_BODY_IDENTITY
#elif STATE==10
#define THE_STATE htp_connp_REQ_BODY_CHUNKED_LENGTH
#elif STATE==11
#define THE_STATE htp_connp_REQ_BODY_CHUNKED_DATA
#elif STATE==12
#define THE_STATE htp_connp_REQ_BODY_CHUNKED_DATA_END
#elif STATE==13
#define THE_STATE htp_connp_REQ_FINALIZE
#elif STATE==14
#define THE_STATE htp_connp_REQ_IGNORE_DATA_AFTER_HTTP_0_9
#endif
static int hexv(unsigned char c){ if(c>='0'&&c<='9') return c-'0'; if(c>='a'&&c<='f') return c-'a'+10; if(c>='A'&&c<='F') return c-'A'+10; return -1; }

void harness(void){
    /* ---- symbolic pre-state under INV_A ---- */
    C.cfg=&CFG; C.conn=&CONN; C.in_tx=&TX; TX.connp=&C; TX.cfg=&CFG; TX.conn=&CONN;
    CFG.field_limit_hard=in_size(); CFG.process_request_header=rec_header; CFG.parse_request_line=rec_parse_line;
    CFG.server_personality=in_range(0,9);
    CHUNK=malloc(N); __CPROVER_assume(CHUNK!=NULL);
#ifdef EXACT
    size_t len=N;
#else
    size_t len=in_size_le(N);
#endif
    CHUNKLEN=len;
    for(size_t i=0;i<N;i++) CHUNK[i]=in_u8();
    int64_t ro=(int64_t)in_size_le(len), co=(int64_t)in_size_le((size_t)ro);
    C.in_current_data=CHUNK; C.in_current_len=(int64_t)len; C.in_current_read_offset=ro; C.in_current_consume_offset=co;
    C.in_current_receiver_offset=(int64_t)in_size_le((size_t)ro);
    C.in_stream_offset=(int64_t)in_size_le(1000);
    if(in_bool()){ size_t bs=in_size_le(B); __CPROVER_assume(bs>=1); C.in_buf=malloc(FM_CAP); __CPROVER_assume(C.in_buf); for(size_t i=0;i<B;i++) C.in_buf[i]=in_u8(); C.in_buf_size=bs; }
    if(in_bool()){ size_t hl=in_size_le(H); C.in_header=bstr_alloc(H); __CPROVER_assume(C.in_header); for(size_t i=0;i<H;i++) bstr_ptr(C.in_header)[i]=in_u8(); bstr_adjust_len(C.in_header,hl); }
    unsigned st=in_range(HTP_STREAM_NEW,HTP_STREAM_DATA); __CPROVER_assume(st!=HTP_STREAM_ERROR && st!=HTP_STREAM_STOP && st!=HTP_STREAM_TUNNEL);
    C.in_status=st; C.out_status=in_range(HTP_STREAM_NEW,HTP_STREAM_DATA);
    if(in_bool()) C.in_data_receiver_hook=(htp_hook_t*)&CFG;   /* only its non-NULL-ness matters: htp_hook_run_all is a recorder */
    TX.request_method_number=in_range(HTP_M_UNKNOWN,HTP_M_INVALID);
    TX.request_progress=in_range(HTP_REQUEST_NOT_STARTED,HTP_REQUEST_COMPLETE);
    TX.response_progress=in_range(HTP_RESPONSE_NOT_STARTED,HTP_RESPONSE_COMPLETE);
    TX.response_status_number=(int)in_range(0,700);
    TX.is_protocol_0_9=in_bool(); TX.request_transfer_coding=in_range(HTP_CODING_UNKNOWN,HTP_CODING_INVALID);
    TX.request_content_length=(int64_t)in_size_le(N+3); TX.request_message_len=(int64_t)in_size_le(1000);
    C.in_body_data_left=(int64_t)in_size_le(N+2); C.in_chunked_length=(int64_t)in_size_le(N+2); C.in_content_length=(int64_t)in_size_le(N+3);
    TX.flags=in_ull();
    state_fn S=THE_STATE; C.in_state=S; C.in_state_previous=S;
    /* INV_A, state-specific part (each clause is established by the predecessor states, see DESIGN.md 2.3) */
#if STATE==S_IDLE || STATE==S_LINE
    /* REQ_FINALIZE peeks a request line without consuming it: consume < read is possible here, but then the LF is still unread */
    __CPROVER_assume(co==ro || ro<(int64_t)len);
#else
    __CPROVER_assume(co==ro);
#endif
#if STATE==S_LINE || STATE==S_PROTOCOL
    __CPROVER_assume(TX.request_progress==HTP_REQUEST_LINE);
#elif STATE==S_HEADERS
    __CPROVER_assume(TX.request_progress==HTP_REQUEST_HEADERS||TX.request_progress==HTP_REQUEST_TRAILER);
#elif STATE==S_CONNECT_CHECK || STATE==S_CONNECT_WAIT || STATE==S_CONNECT_PROBE || STATE==S_BODY_DETERMINE
    __CPROVER_assume(TX.request_progress==HTP_REQUEST_HEADERS);
#elif STATE==S_BODY_IDENTITY
    __CPROVER_assume(TX.request_progress==HTP_REQUEST_BODY && C.in_body_data_left>=1);
#elif STATE==S_CHUNKED_LENGTH || STATE==S_CHUNKED_DATA_END
    __CPROVER_assume(TX.request_progress==HTP_REQUEST_BODY);
#elif STATE==S_CHUNKED_DATA
    __CPROVER_assume(TX.request_progress==HTP_REQUEST_BODY && C.in_chunked_length>=1);
#endif
    /* snapshot */
    unsigned char chunk0[N]; for(size_t i=0;i<N;i++) chunk0[i]=CHUNK[i];
    int64_t so0=C.in_stream_offset, ml0=TX.request_message_len, left0=C.in_body_data_left, ck0=C.in_chunked_length; unsigned st0=C.in_status, ost0=C.out_status;
    int had_buf=C.in_buf!=NULL; size_t bs0=C.in_buf_size; int had_hdr=C.in_header!=NULL;
    unsigned prog0=TX.request_progress;

    /* ---- the call ---- */
    htp_status_t rc=THE_STATE(&C);   /* direct call: no function-pointer dispatch in the harness */

    /* ---- contract (C09.G2) ---- */
    int64_t ro1=C.in_current_read_offset, co1=C.in_current_consume_offset;
    assert(rc==HTP_OK||rc==HTP_DATA||rc==HTP_DATA_BUFFER||rc==HTP_DATA_OTHER||rc==HTP_ERROR||rc==HTP_STOP);
    assert(0<=co1 && co1<=ro1 && ro1<=(int64_t)len);
    assert(ro1>=ro && co1>=co);
    if(rc==HTP_DATA||rc==HTP_DATA_BUFFER) assert(ro1==(int64_t)len);
    if(rc==HTP_DATA) assert(co1==ro1);
    assert((C.in_buf==NULL)==(C.in_buf_size==0));
    assert(C.in_stream_offset-so0==ro1-ro);
    assert(C.in_current_data==CHUNK && C.in_current_len==(int64_t)len);
    for(size_t i=0;i<N;i++) assert(CHUNK[i]==chunk0[i]);      /* the caller's chunk is never written */
    if(rc==HTP_STOP) assert(n_stub+n_recv>0);                  /* STOP only ever comes from a callback */
    if(rc==HTP_OK) assert(C.in_state!=S || ro1>ro || co1>co || n_stub>0 || (had_buf && C.in_buf==NULL) || C.in_status!=st0);   /* progress */
    if(C.in_buf!=NULL && rc!=HTP_ERROR) assert(C.in_buf_size + (C.in_header?bstr_len(C.in_header):0) <= CFG.field_limit_hard || (C.in_buf_size==bs0 && had_buf));
#if STATE!=S_IDLE
    assert(TX.request_progress>=prog0);                        /* C05.mono */
#endif

    /* C09.G3: the request side never revives a response direction that has failed or was stopped */
    if(ost0==HTP_STREAM_ERROR||ost0==HTP_STREAM_STOP) assert(C.out_status==ost0);

    /* ---- state-specific clauses ---- */
#if STATE==S_BODY_IDENTITY
    { size_t avail=len-(size_t)ro, k=(size_t)left0<avail?(size_t)left0:avail;
      if(k==0){ assert(rc==HTP_DATA && n_body==0 && ro1==ro); }
      else { assert(n_body==1 && BODYN==k); for(size_t i=0;i<N;i++) if(i<k) assert(BODY[i]==chunk0[ro+i]);
        if(rc_body!=HTP_OK){ assert(rc==rc_body && ro1==ro && co1==co && C.in_body_data_left==left0 && TX.request_message_len==ml0); }
        else { assert(ro1==ro+(int64_t)k && co1==co+(int64_t)k && TX.request_message_len==ml0+(int64_t)k && C.in_body_data_left==left0-(int64_t)k);
               if(left0-(int64_t)k==0){ assert(rc==HTP_OK && C.in_state==htp_connp_REQ_FINALIZE); } else { assert(rc==HTP_DATA && C.in_state==S); } } }
      VERIF_COVER(k>0 && k<avail && rc==HTP_OK, "body ends inside the chunk"); }
#elif STATE==S_CHUNKED_DATA
    { size_t avail=len-(size_t)ro, k=(size_t)ck0<avail?(size_t)ck0:avail;
      if(k==0){ assert(rc==HTP_DATA && n_body==0 && ro1==ro); }
      else { assert(n_body==1 && BODYN==k); for(size_t i=0;i<N;i++) if(i<k) assert(BODY[i]==chunk0[ro+i]);
        if(rc_body!=HTP_OK){ assert(rc==rc_body && ro1==ro && C.in_chunked_length==ck0 && TX.request_message_len==ml0); }
        else { assert(ro1==ro+(int64_t)k && co1==co+(int64_t)k && TX.request_message_len==ml0+(int64_t)k && C.in_chunked_length==ck0-(int64_t)k);
               if(ck0-(int64_t)k==0){ assert(rc==HTP_OK && C.in_state==htp_connp_REQ_BODY_CHUNKED_DATA_END); } else { assert(rc==HTP_DATA); } } }
      VERIF_COVER(k>0 && k<avail, "chunk ends inside the call"); }
#elif STATE==S_CHUNKED_DATA_END
    { size_t i=(size_t)ro; while(i<len && chunk0[i]!='\n') i++;
      assert(n_stub==0);
      if(i<len){ assert(rc==HTP_OK && ro1==(int64_t)i+1 && C.in_state==htp_connp_REQ_BODY_CHUNKED_LENGTH && TX.request_message_len==ml0+(ro1-ro)); }
      else { assert(rc==HTP_DATA && ro1==(int64_t)len && TX.request_message_len==ml0+(ro1-ro)); }
      assert(co1-co==ro1-ro);
      VERIF_COVER(i<len && i>(size_t)ro, "junk before the LF"); }
#elif STATE==S_CHUNKED_LENGTH
    { size_t i=(size_t)ro; while(i<len && chunk0[i]!='\n') i++;
      assert(n_stub==0);
      if(i==len){ assert(rc==HTP_DATA_BUFFER && ro1==(int64_t)len && co1==co); }
      else if(!had_buf && co==ro && rc!=HTP_ERROR){
        /* whole size line inside this chunk: value = hex digits after leading blanks/CR/LF, junk after the digits ignored */
        size_t s=(size_t)ro; while(s<i && (chunk0[s]==' '||chunk0[s]=='\t'||chunk0[s]=='\r'||chunk0[s]==0x0b||chunk0[s]==0x0c)) s++;
        int64_t v=-1; if(s<i && hexv(chunk0[s])>=0){ v=0; while(s<i && hexv(chunk0[s])>=0){ v=v*16+hexv(chunk0[s]); s++; } }
        assert(rc==HTP_OK && ro1==(int64_t)i+1 && co1==ro1 && TX.request_message_len==ml0+(ro1-ro));
        assert(C.in_chunked_length==v);
        if(v>0) assert(C.in_state==htp_connp_REQ_BODY_CHUNKED_DATA); else { assert(v==0); assert(C.in_state==htp_connp_REQ_HEADERS && TX.request_progress==HTP_REQUEST_TRAILER); }
      }
      VERIF_COVER(rc==HTP_OK && C.in_chunked_length>15, "two hex digits"); }
#elif STATE==S_CONNECT_CHECK
    assert(ro1==ro && co1==co && n_stub==0 && n_recv==0);
    if(TX.request_method_number==HTP_M_CONNECT){ assert(rc==HTP_DATA_OTHER && C.in_status==HTP_STREAM_DATA_OTHER && C.in_state==htp_connp_REQ_CONNECT_WAIT_RESPONSE); }
    else { assert(rc==HTP_OK && C.in_status==st0 && C.in_state==htp_connp_REQ_BODY_DETERMINE); }
    assert(C.out_status==ost0);
#elif STATE==S_CONNECT_WAIT
    assert(ro1==ro && co1==co && n_stub==0 && n_recv==0 && C.in_status==st0 && C.out_status==ost0);
    if(TX.response_progress<=HTP_RESPONSE_LINE){ assert(rc==HTP_DATA_OTHER && C.in_state==S); }
    else if(TX.response_status_number>=200&&TX.response_status_number<=299){ assert(rc==HTP_OK && C.in_state==htp_connp_REQ_CONNECT_PROBE_DATA); }
    else { assert(rc==HTP_OK && C.in_state==htp_connp_REQ_FINALIZE); }
#elif STATE==S_CONNECT_PROBE
    assert(n_body==0 && n_hdr==0);
    { size_t i=(size_t)ro; while(i<len && chunk0[i]!='\n' && chunk0[i]!=0) i++;
      if(i==len){ assert(rc==HTP_DATA_BUFFER && ro1==(int64_t)len && co1==co && n_stub==0 && C.in_status==st0); } }   /* the decision needs the whole first line */
    if(rc==HTP_OK||rc==HTP_STOP||(rc==HTP_ERROR&&n_complete)){
        if(!had_buf) assert(co1==co);     /* nothing of the probed line is consumed: it is parsed (or tunnelled) from its first byte */
        if(n_complete==0){ assert(rc==HTP_OK && C.in_status==HTP_STREAM_TUNNEL); if(ost0!=HTP_STREAM_ERROR&&ost0!=HTP_STREAM_STOP) assert(C.out_status==HTP_STREAM_TUNNEL); }
        else { assert(n_complete==1 && C.in_status==st0 && C.out_status==ost0); }
    }
    VERIF_COVER(n_complete==1, "tunnel payload is plain HTTP"); VERIF_COVER(rc==HTP_OK&&n_complete==0, "tunnel");
#elif STATE==S_FINALIZE
    if(n_complete) assert(n_body==0);     /* a following message start is never delivered as body */
    if(n_complete && !had_buf && st0!=HTP_STREAM_CLOSED) assert(co1==co);
    VERIF_COVER(n_complete==1 && ro1>ro, "next request line probed"); VERIF_COVER(n_body==1, "unexpected body");
#elif STATE==S_IGNORE_0_9
    assert(rc==HTP_DATA && ro1==(int64_t)len && co1-co==ro1-ro && n_stub==0);
#elif STATE==S_BODY_DETERMINE
    assert(ro1==ro && co1==co && n_stub==0);
    if(TX.request_transfer_coding==HTP_CODING_CHUNKED){ assert(rc==HTP_OK && C.in_state==htp_connp_REQ_BODY_CHUNKED_LENGTH && TX.request_progress==HTP_REQUEST_BODY); }
    else if(TX.request_transfer_coding==HTP_CODING_IDENTITY){ assert(rc==HTP_OK && C.in_body_data_left==TX.request_content_length);
        if(TX.request_content_length!=0) assert(C.in_state==htp_connp_REQ_BODY_IDENTITY && TX.request_progress==HTP_REQUEST_BODY); else assert(C.in_state==htp_connp_REQ_FINALIZE); }
    else if(TX.request_transfer_coding==HTP_CODING_NO_BODY){ assert(rc==HTP_OK && C.in_state==htp_connp_REQ_FINALIZE); }
    else assert(rc==HTP_ERROR);
#elif STATE==S_IDLE
    if(ro>=(int64_t)len){ assert(rc==HTP_DATA && n_stub==0); } else { assert(n_create==1); if(rc==HTP_OK) assert(n_start==1 && C.in_tx==&TX); else assert(rc==HTP_ERROR && n_start==0); }
    assert(ro1==ro && co1==co);
#elif STATE==S_HEADERS
    VERIF_COVER(n_hdr==2, "two header lines processed in one call"); VERIF_COVER(n_headers==1 && had_hdr, "pending header flushed at end of block");
#elif STATE==S_LINE
    VERIF_COVER(n_line==1, "request line complete");
#elif STATE==S_PROTOCOL
    if(!TX.is_protocol_0_9 || rc!=HTP_OK){ } 
    assert(rc==HTP_OK && ro1==ro && co1==co && n_stub==0);
#endif
    VERIF_WITNESS();
}

/* request stream layer, unity include: the static helpers of htp_request.c (buffering, receiver,
 * state-change handling) are the real ones; malloc/realloc of that unit are fixed-size. Layer B
 * (htp_tx_state_*, body dispatch, tx creation) and layer C (cfg->parse_request_line,
 * cfg->process_request_header) are recorder / contract stubs defined by the including harness. */
#ifndef REQ_UNITY_H
#define REQ_UNITY_H
#include "verif.h"
#include "fixed_malloc.h"
#define malloc verif_fixed_malloc
#define realloc verif_fixed_realloc
#include "htp_request.c"
#undef malloc
#undef realloc
#endif

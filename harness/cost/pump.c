/* C08: marginal cost does not grow. A deterministic cost meter is injected at compile time (verif_cost.h
 * redefines while/for so that every loop iteration of the real code bumps verif_cost; no source change).
 * For a pump family  prefix . unit^k . suffix  with a SYMBOLIC unit byte the real function is run for
 * k = K, 2K, 3K on fresh states; linear work means cost(3K)-cost(2K) == cost(2K)-cost(K) up to a constant.
 * A quadratic construct makes the second difference grow with K whatever the constants are. */
#if TARGET==1
#include "verif_cost.h"
#include "stream/res_unity.h"
#elif TARGET==3
#include "verif_cost.h"
#include "verif.h"
#include "htp_private.h"
#else
#include "verif.h"
#include "htp_private.h"
extern unsigned long verif_cost;
#endif
#ifndef K
#define K 4
#endif
#ifndef SLACK
#define SLACK 4
#endif
unsigned long verif_cost;
unsigned verif_nlog;
void htp_log(htp_connp_t *connp, const char *file, int line, enum htp_log_level_t level, int code, const char *fmt, ...){ verif_nlog++; }
static htp_cfg_t CFG; static htp_conn_t CONN;
#if TARGET==1
htp_status_t htp_tx_res_process_body_data_ex(htp_tx_t *tx, const void *data, size_t len){ return HTP_OK; } htp_status_t htp_tx_state_response_headers(htp_tx_t *tx){ return HTP_OK; }
htp_status_t htp_tx_state_response_complete_ex(htp_tx_t *tx,int h){ return HTP_OK; } htp_status_t htp_tx_state_response_line(htp_tx_t *tx){ return HTP_OK; } htp_status_t htp_tx_state_response_start(htp_tx_t *tx){ return HTP_OK; }
htp_status_t htp_tx_state_request_complete(htp_tx_t *tx){ return HTP_OK; } htp_tx_t *htp_connp_tx_create(htp_connp_t *c){ return NULL; } void htp_conn_track_outbound_data(htp_conn_t *conn, size_t len, const htp_time_t *t){ }
htp_status_t htp_hook_run_all(htp_hook_t *hook, void *user_data){ return HTP_OK; }
void *htp_table_get_c(const htp_table_t *t, const char *k){ return NULL; } size_t htp_table_size(const htp_table_t *t){ return 0; } void *htp_table_get_index(const htp_table_t *t, size_t i, bstr **k){ return NULL; } void htp_table_clear(htp_table_t *t){ } void *htp_list_array_get(const htp_list_array_t *l, size_t idx){ return NULL; }
static unsigned long run(unsigned char unit, size_t k){ static htp_connp_t CS[3]; static htp_tx_t TS[3]; static int idx; htp_connp_t *c=&CS[idx]; htp_tx_t *t=&TS[idx]; idx++;
    static unsigned char B0[3*K+2],B1[3*K+2],B2[3*K+2]; unsigned char *b=(idx==1)?B0:(idx==2)?B1:B2; for(size_t i=0;i<k;i++) b[i]=unit;
    c->cfg=&CFG; c->conn=&CONN; c->out_tx=t; t->connp=c; t->cfg=&CFG; t->response_progress=HTP_RESPONSE_BODY; c->out_status=HTP_STREAM_DATA; c->out_state=htp_connp_RES_BODY_CHUNKED_LENGTH;
    c->out_current_data=b; c->out_current_len=(int64_t)k; CFG.field_limit_hard=18000;
    verif_cost=0; htp_status_t rc=htp_connp_RES_BODY_CHUNKED_LENGTH(c); unsigned long r=verif_cost; (void)rc; return r; }
#elif TARGET==2
static unsigned long run(unsigned char unit, size_t k){ static unsigned char B0[3*K+2],B1[3*K+2],B2[3*K+2]; static int idx; unsigned char *b=(idx==0)?B0:(idx==1)?B1:B2; idx++; b[0]='g'; for(size_t i=0;i<k;i++) b[1+i]=unit;
    verif_cost=0; int r=bstr_util_mem_index_of_mem_nocasenorzero(b,k+1,"chunked",7); (void)r; return verif_cost; }
#elif TARGET==3
static unsigned n_create; static htp_decompressor_t DEC[6]; static htp_header_t H_CE;
htp_decompressor_t *htp_gzip_decompressor_create(htp_connp_t *connp, enum htp_content_encoding_t format){ return &DEC[(n_create++)%6]; }
void htp_gzip_decompressor_destroy(htp_decompressor_t *d){ } htp_status_t htp_gzip_decompressor_decompress(htp_decompressor_t *drec, htp_tx_data_t *d){ return HTP_OK; }
htp_status_t htp_req_run_hook_body_data(htp_connp_t *c, htp_tx_data_t *d){ return HTP_OK; } htp_status_t htp_res_run_hook_body_data(htp_connp_t *c, htp_tx_data_t *d){ return HTP_OK; }
htp_status_t htp_hook_run_all(htp_hook_t *hook, void *user_data){ return HTP_OK; } htp_status_t htp_connp_res_receiver_finalize_clear(htp_connp_t *c){ return HTP_OK; } htp_status_t htp_connp_req_receiver_finalize_clear(htp_connp_t *c){ return HTP_OK; }
void *htp_table_get_c(const htp_table_t *t, const char *k){ if(k[8]=='e') return &H_CE; return NULL; }
#include "htp_transaction.c"
static unsigned long run(unsigned char unit, size_t k){ static htp_connp_t CS[3]; static htp_tx_t TS[3]; static int idx; htp_connp_t *c=&CS[idx]; htp_tx_t *t=&TS[idx]; idx++;
    unsigned char v[3*K+20]; size_t n=0; const char *p="identity,"; for(;p[n];n++) v[n]=(unsigned char)p[n]; for(size_t i=0;i<k;i++) v[n++]=unit; const char *q="identity"; for(size_t i=0;q[i];i++) v[n++]=(unsigned char)q[i];
    H_CE.value=bstr_dup_mem(v,n); __CPROVER_assume(H_CE.value);
    c->cfg=&CFG; c->conn=&CONN; c->out_tx=t; t->connp=c; t->cfg=&CFG; t->response_progress=HTP_RESPONSE_HEADERS; CFG.response_decompression_enabled=1; CFG.response_decompression_layer_limit=2; CFG.response_lzma_layer_limit=1;
    verif_cost=0; htp_status_t rc=htp_tx_state_response_headers(t); (void)rc; return verif_cost; }
#elif TARGET==4
static unsigned long run(unsigned char unit, size_t k){ static unsigned char B0[3*K+2],B1[3*K+2],B2[3*K+2]; static int idx; unsigned char *b=(idx==0)?B0:(idx==1)?B1:B2; idx++; for(size_t i=0;i<k;i++) b[i]=unit;
    verif_cost=0; (void)htp_header_has_token(b,k,(unsigned char*)"chunked"); int ext=0; (void)htp_parse_chunked_length(b,k,&ext); size_t l=k; (void)htp_chomp(b,&l); return verif_cost; }
#endif
void harness(void){
#ifdef UNITC
    unsigned char unit=UNITC; (void)in_u8();      /* unit constant per query where the symbolic unit does not fit */
#else
    unsigned char unit=in_u8();
#endif
#ifdef UNITSET
    __CPROVER_assume(unit==' '||unit==','||unit=='\n'||unit=='\r'||unit==0||unit=='a'||unit=='\t'||unit==';'||unit=='0');
#endif
    unsigned long c1=run(unit,K), c2=run(unit,2*K), c3=run(unit,3*K);
    assert(c3+c1 <= 2*c2 + SLACK);            /* second difference bounded: the marginal cost of K more units does not grow */
    VERIF_COVER(c3>c1, "work grows with k");
    VERIF_WITNESS();
}

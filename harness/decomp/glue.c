/* C07 glue: the REAL htp_gzip_decompressor_create / _decompress / _restart / _probe / _end / _destroy (htp_decompressors.c) from a
 * freshly created decompressor, against CONTRACT STUBS of zlib and LzmaDec: each inflate / LzmaDec_DecodeToBuf call consumes
 * 0..avail_in input bytes, produces 0..avail_out output bytes (it only moves the stream counters: the CONTENT of the 8 KiB buffer is
 * never written, so the statements are about which bytes of the input are offered to the decoder and how many output bytes reach
 * the callback, not about inflated content), and returns a symbolic code. Ghost state: the input offset (relative to the message)
 * that the decoder is offered next, total produced, total delivered. SCEN selects the scenario (constants per query):
 *  1 passthrough: every decoder call fails without output -> after the restarts the whole chunk reaches the callback unchanged
 *    (pointer, length), and so does every later chunk;
 *  2 lzma header: the 13-byte .lzma header split over two calls at CUT -> LzmaDec_Allocate sees exactly the first 5 stream bytes,
 *    the decoder is then offered the stream from offset 13 on, nothing skipped, nothing twice;
 *  3 flow: one or two data calls + the final NULL call with an arbitrarily behaving decoder that never fails: produced == delivered
 *    at the end, every delivery is <= one buffer, in order;
 *  4 after an error from the callback (bomb verdict) no further byte is handed to the callback by later data calls or the final call. */
#include "verif.h"
#include "htp_private.h"
unsigned verif_nlog;
void htp_log(htp_connp_t *connp, const char *file, int line, enum htp_log_level_t level, int code, const char *fmt, ...){ verif_nlog++; }
#ifndef SCEN
#define SCEN 1
#endif
#ifndef LEN1
#define LEN1 4
#endif
#ifndef N1
#define N1 99      /* decoder invocations in the first data call (constant per query) */
#endif
#ifndef CBERR
#define CBERR 0
#endif
#ifndef LEN2
#define LEN2 0
#endif
#define MSG (LEN1+LEN2)
static unsigned char *chunk1, *chunk2; static const unsigned char *cur_chunk; static size_t cur_len, cur_base;
static size_t g_next_in_off;      /* offset (in the message) of the next input byte the decoder must be offered */
static unsigned long long g_produced, g_delivered; static unsigned g_ncb, g_ninfl, g_cb_after_err, g_err_seen;
static int cb_rc_plan[8]; static const unsigned char *cb_data[8]; static size_t cb_len[8];
/* ---- zlib contract stubs ---- */
static int g_resync;
int inflateInit2_(z_streamp s, int wbits, const char *ver, int sz){ s->total_in=0; g_resync=1; return Z_OK; }
int inflateEnd(z_streamp s){ return Z_OK; }
uLong crc32(uLong crc, const Bytef *buf, uInt len){ return crc+len; }
#define VERIF_RC_MEM 77
#ifndef RCPLAN
#define RCPLAN {Z_DATA_ERROR,Z_DATA_ERROR,Z_DATA_ERROR,Z_DATA_ERROR,Z_DATA_ERROR,Z_DATA_ERROR}
#endif
static const int rc_plan[]=RCPLAN;      /* return code of the k-th decoder invocation: constants per query */
#define NPLAN (sizeof(rc_plan)/sizeof(rc_plan[0]))
/* g_resync: set by a restart: the decoder is offered the current chunk again (after the probed gzip header) */
static unsigned g_step_limit=NPLAN;
static int decoder_step(const unsigned char *next_in, size_t *in_avail, size_t *out_avail, size_t *used_in, size_t *made_out){
    /* the bytes offered are the unconsumed tail of the CURRENT chunk */
    assert(next_in>=cur_chunk && next_in+*in_avail==cur_chunk+cur_len);
    __CPROVER_assume(g_ninfl<NPLAN && g_ninfl<g_step_limit);   /* bound: NPLAN decoder invocations per run, the first N1 of them in the first data call */
#ifdef STEP_SPLIT
    int last_of_call=(g_ninfl+1==g_step_limit);
#endif
    int rc=rc_plan[g_ninfl]; g_ninfl++;
    size_t off=(size_t)(next_in-cur_chunk)+cur_base;
    if(g_resync){ g_next_in_off=off; g_resync=0; }
    /* offered input continues exactly where the decoder stopped: nothing skipped, nothing offered twice */
    assert(off==g_next_in_off);
    if(rc==Z_DATA_ERROR || rc==Z_BUF_ERROR || rc==VERIF_RC_MEM){ *used_in=0; *made_out=0; return rc; }      /* failure without progress */
    size_t ui=in_size_le(*in_avail), mo=in_size_le(*out_avail);
    __CPROVER_assume(ui>0 || mo>0);                 /* zlib: Z_OK implies progress */
#ifdef STEP_SPLIT
    if(rc==Z_OK){ if(last_of_call) __CPROVER_assume(ui==*in_avail); else __CPROVER_assume(ui<*in_avail); }   /* the plan fixes how many invocations a call takes */
#endif
    g_next_in_off+=ui; g_produced+=mo; *used_in=ui; *made_out=mo;
    return rc;
}
int inflate(z_streamp s, int flush){ size_t ia=s->avail_in, oa=s->avail_out, ui, mo; int rc=decoder_step(s->next_in,&ia,&oa,&ui,&mo);
    s->next_in+=ui; s->avail_in-=(uInt)ui; s->next_out+=mo; s->avail_out-=(uInt)mo; return rc; }
/* ---- LzmaDec contract stubs ---- */
static unsigned n_alloc; static unsigned char props_seen[LZMA_PROPS_SIZE];
#if SCEN==2
#define NOT_LZMA() do{}while(0)
#else
/* a gzip / deflate decompressor never reaches the LZMA decoder: reported if it does, and the path ends there */
#define NOT_LZMA() do{ assert(0 && "LZMA decoder reached by a gzip/deflate decompressor"); __CPROVER_assume(0); }while(0)
#endif
SRes LzmaDec_Allocate(CLzmaDec *p, const Byte *props, unsigned propsSize, ISzAllocPtr alloc){ NOT_LZMA(); n_alloc++; assert(propsSize==LZMA_PROPS_SIZE); for(unsigned i=0;i<LZMA_PROPS_SIZE;i++) props_seen[i]=props[i]; return SZ_OK; }
void LzmaDec_Init(CLzmaDec *p){}
void LzmaDec_Free(CLzmaDec *p, ISzAllocPtr alloc){ NOT_LZMA(); }
SRes LzmaDec_DecodeToBuf(CLzmaDec *p, Byte *dest, SizeT *destLen, const Byte *src, SizeT *srcLen, ELzmaFinishMode fm, ELzmaStatus *status, SizeT memlimit){ NOT_LZMA();
    size_t ia=*srcLen, oa=*destLen, ui, mo; int rc=decoder_step(src,&ia,&oa,&ui,&mo); *srcLen=ui; *destLen=mo;
    if(rc==VERIF_RC_MEM) { *status=LZMA_STATUS_NOT_SPECIFIED; return SZ_ERROR_MEM; }     /* dictionary beyond lzma_memlimit */
    if(rc==Z_DATA_ERROR) { *status=LZMA_STATUS_NOT_SPECIFIED; return SZ_ERROR_DATA; }
    *status = (rc==Z_STREAM_END)? LZMA_STATUS_FINISHED_WITH_MARK : LZMA_STATUS_NOT_FINISHED; return SZ_OK; }
/* ---- the outer callback ---- */
static htp_status_t cb(htp_tx_data_t *d){ assert(g_ncb<8); cb_data[g_ncb]=d->data; cb_len[g_ncb]=d->len;
    if(g_err_seen && d->len>0) g_cb_after_err++;
    g_delivered+=d->len; htp_status_t rc=cb_rc_plan[g_ncb]; g_ncb++; if(rc!=HTP_OK) g_err_seen=1; return rc; }
#ifndef KF_MODE_F12_restart_loses_chunk
#define KF_MODE_F12_restart_loses_chunk 0
#endif
/* length of a gzip member header with extensions as the library's probe computes it (RFC 1952: 10 bytes, + 2 for FHCRC, or up to the
 * NUL of FNAME / FCOMMENT); 0 when the chunk does not start with such a header */
static size_t gzip_header_skip(const unsigned char *d, size_t n){ if(n<4) return 0; if(!(d[0]==0x1f && d[1]==0x8b && d[3]!=0)) return 0;
    if(d[3]&(1<<3) || d[3]&(1<<4)){ size_t k=10; for(size_t i=10;i<LEN1;i++) if(k==i && i<n && d[i]!=0) k++; return k+1; }
    if(d[3]&(1<<1)) return 12; return 10; }
static htp_cfg_t CFG, CFG0; static htp_connp_t C; static htp_tx_t TX;
static htp_status_t call(htp_decompressor_t *dz, const unsigned char *data, size_t len, size_t base){ htp_tx_data_t d; d.tx=&TX; d.data=data; d.len=len; d.is_last=0;
    cur_chunk=data; cur_len=len; cur_base=base; return htp_gzip_decompressor_decompress(dz,&d); }
void harness(void){
    C.cfg=&CFG; TX.connp=&C; TX.cfg=&CFG; CFG.lzma_memlimit=1<<20; CFG.response_lzma_layer_limit=1;
    chunk1=malloc(LEN1); __CPROVER_assume(chunk1); for(size_t i=0;i<LEN1;i++) chunk1[i]=in_u8();
#if LEN2>0
    chunk2=malloc(LEN2); __CPROVER_assume(chunk2); for(size_t i=0;i<LEN2;i++) chunk2[i]=in_u8();
#endif
    enum htp_content_encoding_t fmt =
#if SCEN==2
        HTP_COMPRESSION_LZMA;
#elif defined(FMT_DEFLATE)
        HTP_COMPRESSION_DEFLATE;
#else
        HTP_COMPRESSION_GZIP;
#endif
    CFG0=CFG;
    htp_decompressor_t *dz=htp_gzip_decompressor_create(&C,fmt); __CPROVER_assume(dz); dz->callback=cb;
#if SCEN==5
    /* a decompressor that has given up (pass-through) hands every later chunk, and the final empty call, to the callback untouched */
    for(int i=0;i<8;i++) cb_rc_plan[i]=HTP_OK;
    dz->passthrough=1; ((htp_decompressor_gzip_t*)dz)->zlib_initialized=0;
    htp_status_t rc=call(dz,chunk1,LEN1,0); assert(rc==HTP_OK && g_ncb==1 && cb_data[0]==chunk1 && cb_len[0]==LEN1);
    {   htp_tx_data_t e; e.tx=&TX; e.data=NULL; e.len=0; e.is_last=1; rc=htp_gzip_decompressor_decompress(dz,&e); assert(rc==HTP_OK && g_ncb==2 && cb_data[1]==NULL && cb_len[1]==0); }
    assert(g_ninfl==0);
#elif SCEN==1
    for(int i=0;i<8;i++) cb_rc_plan[i]=HTP_OK;
    /* known finding F12: a chunk that consists of nothing but a gzip header with extensions (the header probe of the first restart
     * skips exactly the whole chunk) is swallowed: no decoder call, no pass-through, and the bytes are not re-fed later */
    KF_GATE(KF_MODE_F12_restart_loses_chunk, gzip_header_skip(chunk1,LEN1)==LEN1);
    htp_status_t rc=call(dz,chunk1,LEN1,0);
    assert(rc==HTP_OK); assert(g_ncb==1); assert(cb_data[0]==chunk1 && cb_len[0]==LEN1);      /* the whole chunk, passed through */
    assert(dz->passthrough==1);
#if LEN2>0
    rc=call(dz,chunk2,LEN2,LEN1); assert(rc==HTP_OK && g_ncb==2 && cb_data[1]==chunk2 && cb_len[1]==LEN2);
#endif
#elif SCEN==2
    for(int i=0;i<8;i++) cb_rc_plan[i]=HTP_OK;
    g_next_in_off=LZMA_PROPS_SIZE+8; g_resync=0;
#ifdef STEP_SPLIT
    g_step_limit=N1;
#endif
    htp_status_t rc=call(dz,chunk1,LEN1,0); assert(rc==HTP_OK);
#if LEN1<13
    assert(n_alloc==0 && g_ninfl==0);
#endif
#ifdef STEP_SPLIT
    __CPROVER_assume(g_ninfl==N1); g_ninfl=N1; g_step_limit=NPLAN;
#endif
    rc=call(dz,chunk2,LEN2,LEN1);
    assert(n_alloc==1);
    for(unsigned i=0;i<LZMA_PROPS_SIZE;i++) assert(props_seen[i]==(i<LEN1? chunk1[i] : chunk2[i-LEN1]));
    assert(g_ninfl>=1);
#elif SCEN==3
    for(int i=0;i<8;i++) cb_rc_plan[i]=HTP_OK;
    g_step_limit=(LEN2>0)?N1:NPLAN;
    htp_status_t rc=call(dz,chunk1,LEN1,0); assert(rc==HTP_OK);
#if LEN2>0
    __CPROVER_assume(g_ninfl==N1); g_ninfl=N1; g_step_limit=NPLAN;
    rc=call(dz,chunk2,LEN2,LEN1);
#endif
    {   htp_tx_data_t e; e.tx=&TX; e.data=NULL; e.len=0; e.is_last=1; rc=htp_gzip_decompressor_decompress(dz,&e); assert(rc==HTP_OK); }
    VERIF_COVER(g_delivered>0, "something delivered");
    assert(g_delivered==g_produced);
    for(unsigned i=0;i<8;i++) if(i<g_ncb) assert(cb_len[i]<=8192);
#elif SCEN==4
    for(int i=0;i<8;i++) cb_rc_plan[i]=(i==CBERR)?HTP_ERROR:HTP_OK;      /* the CBERR-th delivery is refused (bomb verdict): constant per query */
    g_step_limit=(LEN2>0)?N1:NPLAN;
    (void)call(dz,chunk1,LEN1,0);
#if LEN2>0
    __CPROVER_assume(g_ninfl==N1); g_ninfl=N1; g_step_limit=NPLAN;
    (void)call(dz,chunk2,LEN2,LEN1);
#endif
    {   htp_tx_data_t e; e.tx=&TX; e.data=NULL; e.len=0; e.is_last=1; (void)htp_gzip_decompressor_decompress(dz,&e); }
    VERIF_COVER(g_err_seen, "a delivery was refused");
    assert(g_cb_after_err==0);
#endif
    /* C19: the configuration is shared by every parser created from it; decompression never writes it */
    assert(memcmp(&CFG0,&CFG,sizeof CFG)==0);
    htp_gzip_decompressor_destroy(dz);
    VERIF_WITNESS();
}

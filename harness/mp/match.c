/* C14.match: the REAL boundary matcher (htp_mpartp_parse, htp_martp_process_aside, htp_mpartp_init_boundary via
 * htp_mpartp_create; real bstr_builder + htp_list behind boundary_pieces) with the parser's own seam used as the observation
 * point: handle_data / handle_boundary are recorders (byte log with end-of-line marks, boundary events), which also keep the one
 * piece of part state the matcher reads back (current_part_mode: LINE after a boundary until an empty line, DATA in the preamble).
 * Body = PRE . D . POST with PRE/POST concrete framing for boundary "b" and D = ND symbolic bytes (every value, including CR, LF,
 * '-' and 'b'; only the delimiter itself is excluded: that is the encoder's obligation).
 * The body is delivered in the chunks given by CUTS (constants per query; default one byte per call) and the complete log (every
 * byte handed to the part layer, every end-of-line mark in line mode, the position of every boundary event) and the anomaly flags
 * must equal the log of the CONSTRUCTION: header lines line by line, D byte for byte, the line end in front of a delimiter
 * stripped. Exactness for every chunking gives chunking independence. Every (data,len) pair handed to a handler must be readable
 * (r_ok) and the chunk is an exact-size object, so a read past the chunk is a CBMC bounds failure. */
#include "verif.h"
#include "htp_private.h"
#include "htp_multipart_private.h"
unsigned verif_nlog;
void htp_log(htp_connp_t *connp, const char *file, int line, enum htp_log_level_t level, int code, const char *fmt, ...){ verif_nlog++; }
#include "htp_multipart.c"

#ifndef ND
#define ND 2
#endif
#ifndef SHAPE
#define SHAPE 0
#endif
#if SHAPE==0    /* one part, CRLF line ends, closing boundary */
static const char PRE[]="--b\r\nh\r\n\r\n";
static const char POST[]="\r\n--b--\r\n";
#define NBOUND 2
#elif SHAPE==1  /* two parts: D is the first part's data */
static const char PRE[]="--b\r\nh\r\n\r\n";
static const char POST[]="\r\n--b\r\nk\r\n\r\nv\r\n--b--\r\n";
#define NBOUND 3
#elif SHAPE==2  /* LF-only line ends */
static const char PRE[]="--b\nh\n\n";
static const char POST[]="\n--b--\n";
#define NBOUND 2
#elif SHAPE==3  /* preamble, then D as the part data, epilogue */
static const char PRE[]="pp\r\n--b\r\nh\r\n\r\n";
static const char POST[]="\r\n--b--\r\nee";
#define NBOUND 2
#elif SHAPE==4  /* D is the preamble */
static const char PRE[]="";
static const char POST[]="\r\n--b\r\nh\r\n\r\nv\r\n--b--\r\n";
#define NBOUND 2
#elif SHAPE==6  /* the data is "x CR" . D: with D = LF the data ends in a CRLF of its own in front of the delimiter's CRLF */
static const char PRE[]="--b\r\nh\r\n\r\nx\r";
static const char POST[]="\r\n--b--\r\n";
#define NBOUND 2
#elif SHAPE==5  /* D is a header line (no CR / LF inside: a header line is one line) */
static const char PRE[]="--b\r\n";
static const char POST[]="\r\n\r\nv\r\n--b--\r\n";
#define NBOUND 2
#endif
#define NPRE (sizeof(PRE)-1)
#define NPOST (sizeof(POST)-1)
#define TOT (NPRE+ND+NPOST)
#define LOGCAP (TOT+4)
#ifndef MAXPIECE
#define MAXPIECE 1   /* longest piece a handler can receive = longest chunk delivered */
#endif

typedef struct { unsigned char b[LOGCAP]; unsigned char eol[LOGCAP]; size_t n; size_t bnd[4]; size_t nb; int cur; int mode_seen_data;
                 size_t ll; unsigned char l0, l1; } mlog_t;
static mlog_t *LG;
static int rec_data(htp_mpartp_t *p, const unsigned char *data, size_t len, int is_line){
    assert(len<=MAXPIECE);
    if(len==0) return HTP_OK;                       /* htp_mpartp_handle_data ignores empty pieces */
    assert(__CPROVER_r_ok(data,len));
    mlog_t *g=LG;
    if(!g->cur){ g->cur=1; p->current_part_mode = (p->multipart.boundary_count==0)? MODE_DATA : MODE_LINE; g->ll=0; }
    int line_mode = (p->current_part_mode==MODE_LINE);
    for(size_t i=0;i<MAXPIECE;i++) if(i<len){ assert(g->n<LOGCAP); g->b[g->n]=data[i]; g->eol[g->n]=0; g->n++;
        if(line_mode){ g->l1=g->l0; g->l0=data[i]; g->ll++; } }
    if(line_mode && is_line){
        g->eol[g->n-1]=1;
        /* the part handler joins the pieces of the line, chomps it, and switches to data mode on an empty line */
        int empty = (g->ll==1 && (g->l0==LF||g->l0==CR)) || (g->ll==2 && g->l1==CR && g->l0==LF);
        if(empty) p->current_part_mode=MODE_DATA;
        g->ll=0; }
    return HTP_OK; }
static int rec_boundary(htp_mpartp_t *p){ mlog_t *g=LG; assert(g->nb<4); g->bnd[g->nb++]=g->n; g->cur=0; return HTP_OK; }

static htp_cfg_t CFG;
static htp_mpartp_t *mk(void){ bstr *bd=bstr_dup_c("b"); __CPROVER_assume(bd); htp_mpartp_t *p=htp_mpartp_create(&CFG,bd,0); __CPROVER_assume(p);
    p->handle_data=rec_data; p->handle_boundary=rec_boundary; return p; }
static void fin(htp_mpartp_t *p){ if(LG->cur) htp_martp_process_aside(p,0); }

#ifndef CUTS
#define CUTS {999}
#define BYTEWISE 1
#endif
static const size_t cuts[]=CUTS;
#define NCUTS (sizeof(cuts)/sizeof(cuts[0]))

/* the log of the construction */
static mlog_t EX; static unsigned char dsym[ND];
static void ex_lit(const char *s, int eol){ for(size_t i=0;s[i];i++){ EX.b[EX.n]=(unsigned char)s[i]; EX.eol[EX.n]=0; EX.n++; } if(eol) EX.eol[EX.n-1]=1; }
static void ex_d(void){ for(size_t i=0;i<ND;i++){ EX.b[EX.n]=dsym[i]; EX.eol[EX.n]=0; EX.n++; } }
static void ex_b(void){ EX.bnd[EX.nb++]=EX.n; }
static void expected(void){
#if SHAPE==0
    ex_b(); ex_lit("h\r\n",1); ex_lit("\r\n",1); ex_d(); ex_b();
#elif SHAPE==1
    ex_b(); ex_lit("h\r\n",1); ex_lit("\r\n",1); ex_d(); ex_b(); ex_lit("k\r\n",1); ex_lit("\r\n",1); ex_lit("v",0); ex_b();
#elif SHAPE==2
    ex_b(); ex_lit("h\n",1); ex_lit("\n",1); ex_d(); ex_b();
#elif SHAPE==3
    ex_lit("pp",0); ex_b(); ex_lit("h\r\n",1); ex_lit("\r\n",1); ex_d(); ex_b(); ex_lit("ee",0);
#elif SHAPE==4
    ex_d(); ex_b(); ex_lit("h\r\n",1); ex_lit("\r\n",1); ex_lit("v",0); ex_b();
#elif SHAPE==6
    ex_b(); ex_lit("h\r\n",1); ex_lit("\r\n",1); ex_lit("x\r",0); ex_d(); ex_b();
#elif SHAPE==5
    ex_b(); ex_d(); ex_lit("\r\n",1); ex_lit("\r\n",1); ex_lit("v",0); ex_b();
#endif
}

static unsigned char *bufA;
/* every chunk is handed over in its own exact-size object, released after the call: a read past the chunk or a pointer kept
 * into it is a failing CBMC check (and an ASan report in the native twin) */
static void feed(htp_mpartp_t *p, const unsigned char *src, size_t len){ unsigned char *c=malloc(len); __CPROVER_assume(c);
    for(size_t i=0;i<MAXPIECE;i++) if(i<len) c[i]=src[i];
    htp_status_t rc=htp_mpartp_parse(p,c,len); assert(rc==HTP_OK); free(c); }
static mlog_t LA;
void harness(void){
    /* the stream lives in an exact-size heap object: reading buf[TOT] is out of bounds */
    bufA=malloc(TOT); __CPROVER_assume(bufA);
    size_t n=0;
    for(size_t i=0;i<NPRE;i++) bufA[n++]=(unsigned char)PRE[i];
    for(size_t i=0;i<ND;i++){ dsym[i]=in_u8(); bufA[n++]=dsym[i]; }
    for(size_t i=0;i<NPOST;i++) bufA[n++]=(unsigned char)POST[i];
    unsigned char *d=dsym;
#if SHAPE==5
    for(size_t i=0;i<ND;i++) __CPROVER_assume(d[i]!=CR && d[i]!=LF);
#else
    /* the encoder never puts the delimiter into the data. The parser also accepts a bare LF in front of the dashes, and the first
     * delimiter directly at the start of the stream, so those look-alikes are excluded as well (weaker reading, DESIGN.md C14):
     * E = LF . D . POST must contain LF "--b" nowhere before the intended delimiter in POST */
    {   unsigned char E[1+ND+NPOST]; size_t m=0; E[m++]=(NPRE>0)?(unsigned char)PRE[NPRE>0?NPRE-1:0]:LF;   /* the byte in front of D (the start of the stream counts as a line start) */ for(size_t i=0;i<ND;i++) E[m++]=d[i]; for(size_t i=0;i<NPOST;i++) E[m++]=(unsigned char)POST[i];
        size_t intended = 1+ND+((POST[0]==CR)?1:0);
        for(size_t i=0;i<intended;i++) if(i+3<m) __CPROVER_assume(!(E[i]==LF && E[i+1]=='-' && E[i+2]=='-' && E[i+3]=='b')); }
#if SHAPE==2
    __CPROVER_assume(d[ND-1]!=CR);   /* LF-only framing: a final CR of the data would read as the CR of a CRLF delimiter */
#endif
#endif
    expected();
    LG=&LA; htp_mpartp_t *a=mk(); size_t at=0;
#ifdef BYTEWISE
    for(size_t i=0;i<TOT;i++) feed(a,bufA+i,1);
#else
    for(size_t k=0;k<NCUTS;k++){ size_t e=cuts[k]; if(e>TOT) e=TOT; if(e>at){ feed(a,bufA+at,e-at); at=e; } }
    assert(at==TOT);
#endif
    fin(a);
    assert(LA.nb==EX.nb);
    for(size_t i=0;i<4;i++) if(i<EX.nb) assert(LA.bnd[i]==EX.bnd[i]);
    assert(LA.n==EX.n);
    for(size_t i=0;i<LOGCAP;i++) if(i<EX.n){ assert(LA.b[i]==EX.b[i]); assert(LA.eol[i]==EX.eol[i]); }
    assert(a->multipart.boundary_count==NBOUND);
    /* anomaly indicators are those of the construction: the last boundary was seen, nothing odd after a boundary, CRLF / LF line
     * ends reported for the line ends that are there (a bare LF inside the data counts as an LF line end) */
    {   uint64_t f=a->multipart.flags; int bare_lf=0, crlf=0; unsigned char prev=LF;
        for(size_t i=0;i<TOT;i++){ if(bufA[i]==LF){ if(prev==CR) crlf=1; else bare_lf=1; } prev=bufA[i]; }
        assert(f & HTP_MULTIPART_SEEN_LAST_BOUNDARY);
        assert(!(f & (HTP_MULTIPART_BBOUNDARY_LWS_AFTER|HTP_MULTIPART_BBOUNDARY_NLWS_AFTER|HTP_MULTIPART_PART_AFTER_LAST_BOUNDARY)));
        assert(((f & HTP_MULTIPART_LF_LINE)!=0)==(bare_lf!=0));
        assert(((f & HTP_MULTIPART_CRLF_LINE)!=0)==(crlf!=0)); }
    VERIF_WITNESS();
}

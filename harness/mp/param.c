/* C14.param: the REAL htp_ch_multipart_callback_request_body_data (htp_content_handlers.c) at end of body, over a hand-built parts
 * list with symbolic part types: the text parts, and only they, become body parameters, in order, with the part's own name and value
 * strings; ownership moves exactly once (gave_up_data), and a further end-of-body call is refused without adding anything.
 * A data call goes to htp_mpartp_parse with the chunk unchanged. */
#include "verif.h"
#include "htp_private.h"
#include "htp_multipart_private.h"
#ifndef NPARTS
#define NPARTS 3
#endif
static htp_multipart_part_t PART[NPARTS]; static bstr NAME[NPARTS], VAL[NPARTS];
static unsigned n_fin, n_parse, n_add; static htp_param_t *added[NPARTS+2]; static const void *parse_data; static size_t parse_len;
/* the multipart parser behind the handler: recorders */
htp_status_t htp_mpartp_finalize(htp_mpartp_t *p){ n_fin++; return HTP_OK; }
htp_multipart_t *htp_mpartp_get_multipart(htp_mpartp_t *p){ return &p->multipart; }
htp_status_t htp_mpartp_parse(htp_mpartp_t *p, const void *d, size_t len){ n_parse++; parse_data=d; parse_len=len; return HTP_OK; }
htp_status_t htp_tx_req_add_param(htp_tx_t *tx, htp_param_t *param){ assert(n_add<NPARTS+2); added[n_add++]=param; return HTP_OK; }
static htp_tx_t TX; static htp_mpartp_t MP;
void harness(void){
    TX.request_mpartp=&MP; MP.multipart.parts=htp_list_create(8); __CPROVER_assume(MP.multipart.parts);
    unsigned ntext=0; unsigned order[NPARTS];
    for(unsigned i=0;i<NPARTS;i++){ unsigned t=in_range(0,4); PART[i].type=(enum htp_multipart_type_t)t; PART[i].name=&NAME[i]; PART[i].value=&VAL[i];
        htp_list_push(MP.multipart.parts,&PART[i]); if(t==MULTIPART_PART_TEXT) order[ntext++]=i; }
    htp_tx_data_t d; d.tx=&TX;
    /* a data call is forwarded untouched */
    static unsigned char chunk[3]; d.data=chunk; d.len=in_range(0,3); htp_status_t rc=htp_ch_multipart_callback_request_body_data(&d);
    assert(rc==HTP_OK && n_parse==1 && parse_data==chunk && parse_len==d.len && n_add==0 && n_fin==0);
    /* end of body */
    d.data=NULL; d.len=0; rc=htp_ch_multipart_callback_request_body_data(&d);
    assert(rc==HTP_OK && n_fin==1);
    assert(n_add==ntext);
    for(unsigned k=0;k<NPARTS;k++) if(k<ntext){ htp_param_t *q=added[k]; htp_multipart_part_t *pt=&PART[order[k]];
        assert(q->name==pt->name && q->value==pt->value && q->source==HTP_SOURCE_BODY && q->parser_id==HTP_PARSER_MULTIPART && q->parser_data==pt); }
    assert(MP.gave_up_data==1);
    /* anything after the finalisation is refused and adds nothing (the strings now belong to the transaction) */
    d.data=in_bool()?chunk:NULL; d.len=d.data?1:0; rc=htp_ch_multipart_callback_request_body_data(&d);
    assert(rc==HTP_ERROR && n_add==ntext && n_fin==1 && n_parse==1);
    VERIF_COVER(ntext==NPARTS,"all parts are text parts"); VERIF_COVER(ntext==0,"no text part");
    VERIF_WITNESS();
}

/* C14 attempt: the REAL multipart parser end to end (htp_mpartp_create / parse / finalize, real boundary matcher, part handler,
 * header parsing, builder, table, list) on a body whose FRAMING is concrete and whose part data bytes are symbolic, delivered whole
 * and cut at CUT (constant per query): exactly one text part named "a" whose value is the data, byte for byte, for both deliveries,
 * with identical flags. */
#include "verif.h"
#include "htp_private.h"
#ifndef ND
#define ND 2
#endif
unsigned verif_nlog;
void htp_log(htp_connp_t *connp, const char *file, int line, enum htp_log_level_t level, int code, const char *fmt, ...){ verif_nlog++; }
static htp_cfg_t CFG;
static const char PRE[]="--b\r\nContent-Disposition: form-data; name=\"a\"\r\n\r\n";
static const char POST[]="\r\n--b--\r\n";
#define TOT (sizeof(PRE)-1+ND+sizeof(POST)-1)
static htp_mpartp_t *run(unsigned char *buf, size_t cut){
    bstr *bd=bstr_dup_c("b"); __CPROVER_assume(bd);
    htp_mpartp_t *p=htp_mpartp_create(&CFG,bd,0); __CPROVER_assume(p);
    if(cut==0){ htp_mpartp_parse(p,buf,TOT); } else { htp_mpartp_parse(p,buf,cut); htp_mpartp_parse(p,buf+cut,TOT-cut); }
    htp_mpartp_finalize(p); return p; }
static void check(htp_mpartp_t *p, const unsigned char *d){
    htp_multipart_t *m=htp_mpartp_get_multipart(p);
    assert(htp_list_size(m->parts)==1);
    htp_multipart_part_t *pt=htp_list_get(m->parts,0); assert(pt!=NULL);
    assert(pt->type==MULTIPART_PART_TEXT);
    assert(pt->name && bstr_len(pt->name)==1 && bstr_ptr(pt->name)[0]=='a');
    assert(pt->value && bstr_len(pt->value)==ND);
    for(size_t i=0;i<ND;i++) assert(bstr_ptr(pt->value)[i]==d[i]); }
void harness(void){
    static unsigned char buf[TOT]; size_t n=0; unsigned char d[ND];
    for(size_t i=0;i<sizeof(PRE)-1;i++) buf[n++]=(unsigned char)PRE[i];
    for(size_t i=0;i<ND;i++){ d[i]=in_u8(); buf[n++]=d[i]; }
    for(size_t i=0;i<sizeof(POST)-1;i++) buf[n++]=(unsigned char)POST[i];
    htp_mpartp_t *a=run(buf,0); check(a,d);
#if CUT>0
    static unsigned char buf2[TOT]; for(size_t i=0;i<TOT;i++) buf2[i]=buf[i];
    htp_mpartp_t *b=run(buf2,CUT); check(b,d);
    assert(htp_mpartp_get_multipart(a)->flags==htp_mpartp_get_multipart(b)->flags);
#endif
    VERIF_WITNESS();
}

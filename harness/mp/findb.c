/* C14.boundary: the REAL htp_mpartp_find_boundary on "multipart/form-data; boundary=" . B (plain or quoted), B = NB symbolic bytes from
 * the alphanumeric / dash class: the boundary extracted is exactly B and no header anomaly flag is raised. The extracted boundary is
 * what htp_mpartp_create turns into the delimiter CR LF "--" B that the matcher obligations use. */
#include "verif.h"
#include "htp_private.h"
#include "htp_multipart_private.h"
unsigned verif_nlog;
void htp_log(htp_connp_t *connp, const char *file, int line, enum htp_log_level_t level, int code, const char *fmt, ...){ verif_nlog++; }
#ifndef NB
#define NB 2
#endif
#ifndef NBCONC
#define NBCONC 0
#endif
#ifndef QUOTED
#define QUOTED 0
#endif
static const char H[]="multipart/form-data; boundary=";
static int bchar(unsigned char c){ return (c>='0'&&c<='9')||(c>='a'&&c<='z')||(c>='A'&&c<='Z')||c=='-'; }
void harness(void){
    unsigned char v[64]; size_t n=0; unsigned char b[NB];
    for(size_t i=0;i<sizeof(H)-1;i++) v[n++]=(unsigned char)H[i];
    if(QUOTED) v[n++]='"';
    for(size_t i=0;i<NB;i++){ b[i]=(i<NBCONC)?(unsigned char)("bQ7-"[i&3]):in_u8(); __CPROVER_assume(bchar(b[i])); v[n++]=b[i]; }
    if(QUOTED) v[n++]='"';
    bstr *ct=bstr_dup_mem(v,n); __CPROVER_assume(ct);
    bstr *bd=NULL; uint64_t flags=0;
    htp_status_t rc=htp_mpartp_find_boundary(ct,&bd,&flags);
    assert(rc==HTP_OK); assert(bd!=NULL && bstr_len(bd)==NB);
    for(size_t i=0;i<NB;i++) assert(bstr_ptr(bd)[i]==b[i]);
    /* a quoted boundary is accepted and documented as unusual (HTP_MULTIPART_HBOUNDARY_UNUSUAL); nothing else may be raised */
    assert(flags==(QUOTED? HTP_MULTIPART_HBOUNDARY_UNUSUAL : 0));
    /* and the delimiter built from it */
    static htp_cfg_t CFG; htp_mpartp_t *p=htp_mpartp_create(&CFG,bd,flags); __CPROVER_assume(p);
    assert(p->multipart.boundary_len==NB+4);
    assert(p->multipart.boundary[0]==CR && p->multipart.boundary[1]==LF && p->multipart.boundary[2]=='-' && p->multipart.boundary[3]=='-');
    for(size_t i=0;i<NB;i++) assert((unsigned char)p->multipart.boundary[4+i]==b[i]);
    VERIF_WITNESS();
}

/* C14.part: the REAL part layer (htp_mpartp_handle_data, htp_mpart_part_handle_data, htp_mpartp_parse_header,
 * htp_mpart_part_process_headers, htp_mpart_part_parse_c_d, htp_mpart_decode_quoted_cd_value_inplace, htp_mpartp_handle_boundary,
 * htp_mpart_part_finalize_data) driven through the parser's own seam with exactly the call sequences the boundary matcher produces
 * for one well-formed part: the Content-Disposition line (whole, or in two pieces cut at HC, the last piece carrying is_line),
 * an optional Content-Type line, the empty line, the data (whole or cut at DC), the boundary event.
 * The reported part must be the encoded one: type, name (quoted-string decoded), file name, content type, value byte for byte, no
 * anomaly flag - for every name / file name / data byte and for every cut. */
#include "verif.h"
#include "htp_private.h"
#include "htp_multipart_private.h"
unsigned verif_nlog;
void htp_log(htp_connp_t *connp, const char *file, int line, enum htp_log_level_t level, int code, const char *fmt, ...){ verif_nlog++; }
#include "htp_multipart.c"
#ifndef NN
#define NN 2
#endif
#ifndef ND
#define ND 2
#endif
#ifndef HC
#define HC 0
#endif
#ifndef DC
#define DC 0
#endif
#ifndef ESCQ
#define ESCQ 1
#endif
#ifndef NAMESYM
#define NAMESYM 0
#endif
#ifndef VARIANT
#define VARIANT 0   /* 0 text part; 1 name with an escaped quote inside; 2 file part (filename after name); 3 text part + Content-Type line; 4 name ending in an escaped quote (ESCQ=1) or backslash (ESCQ=0) */
#endif
static const char H1[]="Content-Disposition: form-data; name=\"";
static htp_cfg_t CFG;
static unsigned char line[96], name[8], fname[8], dat[ND+1];
static size_t nname, nfname;
static unsigned char fbytes[ND+2]; static size_t nf, nfcalls, fend;
static int cb_file(void *x){ htp_file_data_t *fd=x; if(fd->data==NULL){ fend++; return HTP_OK; } nfcalls++; assert(__CPROVER_r_ok(fd->data,fd->len));
    for(size_t i=0;i<ND;i++) if(i<fd->len){ assert(nf<ND+2); fbytes[nf++]=fd->data[i]; } assert(fd->len<=ND); return HTP_OK; }
static int name_byte_ok(unsigned char c){ return c!='"' && c!='\\' && c!=CR && c!=LF && c!=0; }
static void put(htp_mpartp_t *p, const unsigned char *d, size_t len, size_t cut, int last_is_line){
    /* exact-size copies, released after the call: the part layer must not keep pointers into a piece */
    if(cut>0 && cut<len){ unsigned char *a=malloc(cut); __CPROVER_assume(a); memcpy(a,d,cut); htp_status_t rc=p->handle_data(p,a,cut,0); assert(rc==HTP_OK); free(a);
        unsigned char *b=malloc(len-cut); __CPROVER_assume(b); memcpy(b,d+cut,len-cut); rc=p->handle_data(p,b,len-cut,last_is_line); assert(rc==HTP_OK); free(b); }
    else { unsigned char *a=malloc(len); __CPROVER_assume(a); memcpy(a,d,len); htp_status_t rc=p->handle_data(p,a,len,last_is_line); assert(rc==HTP_OK); free(a); } }
void harness(void){
    htp_hook_register(&CFG.hook_request_file_data,(htp_callback_fn_t)cb_file); __CPROVER_assume(CFG.hook_request_file_data!=NULL);
    bstr *bd=bstr_dup_c("b"); __CPROVER_assume(bd); htp_mpartp_t *p=htp_mpartp_create(&CFG,bd,0); __CPROVER_assume(p);
    p->multipart.boundary_count=1;                       /* the first boundary has been seen */
    size_t n=0; for(size_t i=0;i<sizeof(H1)-1;i++) line[n++]=(unsigned char)H1[i];
    /* encoded name */
#if NAMESYM
    unsigned char x0=in_u8(), x1=in_u8(); __CPROVER_assume(name_byte_ok(x0) && name_byte_ok(x1));
#else
    unsigned char x0='a', x1='b';       /* name bytes literal: this query is about the cuts and the data bytes */
#endif
#if VARIANT==4
    unsigned char q4=(ESCQ)?'"':'\\';
    line[n++]=x0; line[n++]='\\'; line[n++]=q4; name[0]=x0; name[1]=q4; nname=2; (void)x1;
#elif VARIANT==1
#if NAMESYM
    unsigned char q=in_bool()?'"':'\\';
#else
    unsigned char q='"';
#endif
    line[n++]=x0; line[n++]='\\'; line[n++]=q; line[n++]=x1; name[0]=x0; name[1]=q; name[2]=x1; nname=3;
#else
    line[n++]=x0; line[n++]=x1; name[0]=x0; name[1]=x1; nname=2;
#endif
    line[n++]='"';
#if VARIANT==2
    {   static const char F1[]="; filename=\""; for(size_t i=0;i<sizeof(F1)-1;i++) line[n++]=(unsigned char)F1[i];
#if NAMESYM
        unsigned char f0=in_u8(); __CPROVER_assume(name_byte_ok(f0));
#else
        unsigned char f0='f';
#endif
        line[n++]=f0; fname[0]=f0; nfname=1; line[n++]='"'; }
#endif
    line[n++]=CR; line[n++]=LF;
    for(size_t i=0;i<ND;i++) dat[i]=in_u8();
    put(p,line,n,HC,1);
#if VARIANT==3
    {   static const char T1[]="Content-Type: text/x\r\n"; put(p,(const unsigned char*)T1,sizeof(T1)-1,0,1); }
#endif
    put(p,(const unsigned char*)"\r\n",2,0,1);
    assert(p->current_part_mode==MODE_DATA);
    put(p,dat,ND,DC,in_bool());
    p->handle_boundary(p);
    htp_multipart_t *m=htp_mpartp_get_multipart(p);
    assert(htp_list_size(m->parts)==1);
    htp_multipart_part_t *pt=htp_list_get(m->parts,0); assert(pt!=NULL);
    assert(p->current_part==NULL);
    assert(pt->name!=NULL && bstr_len(pt->name)==nname);
    for(size_t i=0;i<3;i++) if(i<nname) assert(bstr_ptr(pt->name)[i]==name[i]);
#if VARIANT==2
    assert(pt->type==MULTIPART_PART_FILE);
    assert(pt->file!=NULL && pt->file->filename!=NULL && bstr_len(pt->file->filename)==nfname && bstr_ptr(pt->file->filename)[0]==fname[0]);
    assert(pt->file->len==ND);
    assert(nf==ND && fend==1); for(size_t i=0;i<ND;i++) assert(fbytes[i]==dat[i]);
    assert(pt->value==NULL);
#else
    assert(pt->type==MULTIPART_PART_TEXT);
    assert(pt->file==NULL);
    assert(pt->value!=NULL && bstr_len(pt->value)==ND);
    for(size_t i=0;i<ND;i++) assert(bstr_ptr(pt->value)[i]==dat[i]);
#endif
#if VARIANT==3
    assert(pt->content_type!=NULL && bstr_cmp_c(pt->content_type,"text/x")==0);
#else
    assert(pt->content_type==NULL);
#endif
    assert(m->flags==0);
    VERIF_WITNESS();
}

/* C05.once / C06.eob / C09.G4 (local): the real completion functions of htp_transaction.c called from a
 * symbolic lifecycle state of one real transaction (created by the real constructors). */
#include "verif.h"
#include "htp_private.h"
unsigned verif_nlog;
void htp_log(htp_connp_t *connp, const char *file, int line, enum htp_log_level_t level, int code, const char *fmt, ...){ verif_nlog++; }
void htp_urlenp_destroy(htp_urlenp_t *u){ assert(u==NULL); }
void htp_mpartp_destroy(htp_mpartp_t *m){ assert(m==NULL); }
static unsigned n_reqc, n_resc, n_txc, n_reqbody_eob, n_resbody_eob, n_reqbody, n_resbody, seq, seq_eob_req, seq_reqc, seq_eob_res, seq_resc, seq_txc;
static int rc_reqc, rc_resc, rc_txc;
static int pick(void){ unsigned v=in_range(0,3); return v==0?HTP_OK: v==1?HTP_DECLINED: v==2?HTP_STOP:HTP_ERROR; }
static int cb_reqc(htp_tx_t *t){ n_reqc++; seq_reqc=++seq; assert(t->request_progress==HTP_REQUEST_COMPLETE); return rc_reqc; }
static int cb_resc(htp_tx_t *t){ n_resc++; seq_resc=++seq; assert(t->response_progress==HTP_RESPONSE_COMPLETE); return rc_resc; }
static int cb_txc(htp_tx_t *t){ n_txc++; seq_txc=++seq; assert(t->request_progress==HTP_REQUEST_COMPLETE && t->response_progress==HTP_RESPONSE_COMPLETE); return rc_txc; }
static int rc_body;
static int cb_reqbody(htp_tx_data_t *d){ if(d->data==NULL){ n_reqbody_eob++; seq_eob_req=++seq; assert(d->len==0); return rc_body; } else n_reqbody++; return HTP_OK; }
static int cb_resbody(htp_tx_data_t *d){ if(d->data==NULL){ n_resbody_eob++; seq_eob_res=++seq; } else n_resbody++; return HTP_OK; }
void harness(void){
    htp_cfg_t *cfg=calloc(1,sizeof(htp_cfg_t)); __CPROVER_assume(cfg);
    htp_config_register_request_complete(cfg,cb_reqc); htp_config_register_response_complete(cfg,cb_resc); htp_config_register_transaction_complete(cfg,cb_txc);
    htp_config_register_request_body_data(cfg,cb_reqbody); htp_config_register_response_body_data(cfg,cb_resbody);
    __CPROVER_assume(cfg->hook_request_complete&&cfg->hook_response_complete&&cfg->hook_transaction_complete&&cfg->hook_request_body_data&&cfg->hook_response_body_data);
    cfg->tx_auto_destroy=AD;
    htp_connp_t *c=htp_connp_create(cfg); __CPROVER_assume(c);
    htp_tx_t *tx=htp_tx_create(c); __CPROVER_assume(tx);
    static htp_tx_t OTHER;
    unsigned reqp=in_range(HTP_REQUEST_NOT_STARTED,HTP_REQUEST_COMPLETE), resp=in_range(HTP_RESPONSE_NOT_STARTED,HTP_RESPONSE_COMPLETE);
    tx->request_progress=reqp; tx->response_progress=resp;
    unsigned rtc=in_range(HTP_CODING_UNKNOWN,HTP_CODING_INVALID); tx->request_transfer_coding=rtc; unsigned stc=in_range(HTP_CODING_UNKNOWN,HTP_CODING_INVALID); tx->response_transfer_coding=stc;
    tx->request_content_encoding=HTP_COMPRESSION_NONE; tx->response_content_encoding_processing=HTP_COMPRESSION_NONE;
    unsigned who=in_range(0,2); c->in_tx= who==0?tx:(who==1?&OTHER:NULL); c->out_tx=tx;
    unsigned ist=in_range(HTP_STREAM_NEW,HTP_STREAM_DATA); c->in_status=ist; c->out_status=HTP_STREAM_DATA;
    unsigned yield=in_bool(); c->out_data_other_at_tx_end=yield;
    c->in_state=htp_connp_REQ_CONNECT_WAIT_RESPONSE; c->out_state=htp_connp_RES_FINALIZE;
    rc_reqc=pick(); rc_resc=pick(); rc_txc=pick(); rc_body=(FUNC==2)?pick():HTP_OK;
#if FUNC==1   /* htp_tx_state_response_complete_ex */
    unsigned hybrid=in_bool();
    htp_status_t rc=htp_tx_state_response_complete_ex(tx,(int)hybrid);
    assert(n_resc==(resp!=HTP_RESPONSE_COMPLETE?1u:0u));                 /* RESPONSE_COMPLETE at most once */
    if(resp!=HTP_RESPONSE_COMPLETE && stc!=HTP_CODING_NO_BODY){ assert(n_resbody_eob==1 && seq_eob_res<seq_resc); } else assert(n_resbody_eob==0);   /* end-of-body marker before completion */
    int hookfail=(resp!=HTP_RESPONSE_COMPLETE && rc_resc!=HTP_OK && rc_resc!=HTP_DECLINED);
    if(hookfail){ assert(rc==rc_resc && n_txc==0); }
    else {
        int must_yield=!hybrid && ((ist==HTP_STREAM_DATA_OTHER && who==0) || yield);
        /* C09.G4: the response side hands over only when the request side is waiting on THIS transaction, or once per refused CONNECT */
        assert((rc==HTP_DATA_OTHER)==must_yield);
        if(must_yield){ assert(n_txc==0); if(!(ist==HTP_STREAM_DATA_OTHER && who==0)) assert(c->out_data_other_at_tx_end==0); }
        else { assert(n_txc==((reqp==HTP_REQUEST_COMPLETE)?1u:0u));    /* TRANSACTION_COMPLETE only when both sides are complete */
               if(n_txc==0 || rc_txc==HTP_OK || rc_txc==HTP_DECLINED){ assert(rc==HTP_OK && c->out_tx==NULL && c->out_state==htp_connp_RES_IDLE); } }
    }
    VERIF_COVER(rc==HTP_DATA_OTHER, "hand-over"); VERIF_COVER(n_txc==1 && n_resc==1, "response completes the transaction");
#elif FUNC==2 /* htp_tx_state_request_complete: always called for the request side's current transaction */
    __CPROVER_assume(who==0);
    htp_status_t rc=htp_tx_state_request_complete(tx);
    int hasbody=(rtc==HTP_CODING_IDENTITY||rtc==HTP_CODING_CHUNKED);
    int flushfail=(reqp!=HTP_REQUEST_COMPLETE && hasbody && rc_body!=HTP_OK && rc_body!=HTP_DECLINED);     /* the end-of-body call failed */
    if(flushfail){
        /* a request is only ever marked complete when its REQUEST_COMPLETE callback has been delivered (otherwise TRANSACTION_COMPLETE could follow without it) */
        assert(rc!=HTP_OK && n_reqc==0 && n_txc==0 && n_reqbody_eob==1); assert(tx->request_progress!=HTP_REQUEST_COMPLETE);
    } else {
        assert(n_reqc==(reqp!=HTP_REQUEST_COMPLETE?1u:0u));
        if(reqp!=HTP_REQUEST_COMPLETE && hasbody){ assert(n_reqbody_eob==1 && seq_eob_req<seq_reqc); } else assert(n_reqbody_eob==0);
        int hookfail=(reqp!=HTP_REQUEST_COMPLETE && rc_reqc!=HTP_OK && rc_reqc!=HTP_DECLINED);
        if(hookfail){ assert(rc==rc_reqc && n_txc==0); }
        else { assert(rc==HTP_OK && n_txc==((resp==HTP_RESPONSE_COMPLETE)?1u:0u) && c->in_tx==NULL && c->in_state==htp_connp_REQ_IDLE); }
    }
    VERIF_COVER(n_txc==1 && n_reqc==1, "request completes the transaction"); VERIF_COVER(flushfail, "end-of-body flush fails");
#else         /* htp_tx_finalize / htp_tx_destroy */
    htp_status_t rc=htp_tx_finalize(tx);
    assert(n_txc==((reqp==HTP_REQUEST_COMPLETE&&resp==HTP_RESPONSE_COMPLETE)?1u:0u));
    assert(n_reqc==0 && n_resc==0);
    if(n_txc && AD && (rc_txc==HTP_OK||rc_txc==HTP_DECLINED)){ assert(htp_list_get(c->conn->transactions,0)==NULL && c->in_tx!=tx && c->out_tx!=tx); }   /* destroyed: slot NULLed, parser detached */
    else { assert(htp_list_get(c->conn->transactions,0)==tx); assert(htp_tx_destroy(tx)==((reqp==HTP_REQUEST_COMPLETE&&resp==HTP_RESPONSE_COMPLETE)?HTP_OK:HTP_ERROR)); }
    VERIF_COVER(n_txc==1, "finalised");
#endif
    VERIF_WITNESS();
}

/* C04 (local obligations) / C10.maxtx: transaction bookkeeping of the real htp_connp_tx_create,
 * htp_tx_create, htp_connp_tx_freed, htp_tx_destroy and htp_connp_RES_IDLE from a transaction list of
 * symbolic shape (real htp_list.c): arrival order == list order == tx->index, the response side picks
 * exactly slot out_next_tx_index, recycling freed slots does not change which transaction it denotes. */
#include "verif.h"
#include "htp_private.h"
#ifndef MAXL
#define MAXL 3
#endif
unsigned verif_nlog;
void htp_log(htp_connp_t *connp, const char *file, int line, enum htp_log_level_t level, int code, const char *fmt, ...){ verif_nlog++; }
void htp_urlenp_destroy(htp_urlenp_t *u){ } void htp_mpartp_destroy(htp_mpartp_t *m){ }
static unsigned n_start; htp_status_t htp_hook_run_all(htp_hook_t *hook, void *user_data){ n_start++; return HTP_OK; }
static htp_tx_t OLD[MAXL];
void harness(void){
    htp_cfg_t *cfg=calloc(1,sizeof(htp_cfg_t)); __CPROVER_assume(cfg);
    htp_connp_t *c=htp_connp_create(cfg); __CPROVER_assume(c);
    /* list of SIZE slots; slot i holds OLD[i] or NULL (a destroyed transaction) */
    unsigned isnull[MAXL];
    for(unsigned i=0;i<SIZE;i++){ isnull[i]=in_bool(); OLD[i].index=i; OLD[i].conn=c->conn; OLD[i].connp=c; assert(htp_list_push(c->conn->transactions,isnull[i]?NULL:&OLD[i])==HTP_OK); }
    size_t onx=in_size_le(SIZE+1); c->out_next_tx_index=onx;
#if FUNC==1   /* htp_connp_tx_create */
    if(SIZE>0 && in_bool()) c->out_tx=&OLD[0];     /* a response may or may not be in progress */
    int mt=(int)in_range(0,4)-0; cfg->max_tx=mt; unsigned fl0=in_bool()?HTP_CONN_PIPELINED:0; c->conn->flags=fl0;
    htp_tx_t *tx=htp_connp_tx_create(c);
    if(mt>0 && SIZE>(unsigned)mt){ assert(tx==NULL); assert(htp_list_size(c->conn->transactions)==SIZE); }       /* C10: never more than max_tx+1 transactions */
    else { assert(tx!=NULL); assert(tx->index==SIZE); assert(htp_list_size(c->conn->transactions)==SIZE+1); assert(htp_list_get(c->conn->transactions,SIZE)==tx); assert(c->in_tx==tx);
           for(unsigned i=0;i<SIZE;i++) assert(htp_list_get(c->conn->transactions,i)==(isnull[i]?NULL:&OLD[i]));
           assert(tx->request_progress==HTP_REQUEST_NOT_STARTED && tx->response_progress==HTP_RESPONSE_NOT_STARTED && tx->request_headers && tx->response_headers && tx->request_line==NULL && tx->flags==0); }   /* nothing inherited from a neighbour */
    /* pipelining indicator iff a request is started while an earlier one has not seen its response begin */
    assert(((c->conn->flags&HTP_CONN_PIPELINED)!=0)==(fl0!=0 || SIZE>onx));
    assert(c->out_next_tx_index==onx);
#if SIZE>=2
    VERIF_COVER(tx==NULL, "max_tx refusal");
#endif
#elif FUNC==2 /* htp_connp_tx_freed */
    htp_tx_t *denoted = onx<SIZE ? htp_list_get(c->conn->transactions,onx) : NULL;
    unsigned lead=0; while(lead<SIZE && isnull[lead]) lead++;
    __CPROVER_assume(onx>=lead);     /* INV: slots before out_next_tx_index belong to responses already started, only those can have been destroyed */
    size_t r=htp_connp_tx_freed(c);
    assert(r==lead); assert(htp_list_size(c->conn->transactions)==SIZE-lead); assert(c->out_next_tx_index==onx-lead);
    for(unsigned i=lead;i<SIZE;i++) assert(htp_list_get(c->conn->transactions,i-lead)==(isnull[i]?NULL:&OLD[i]));
    if(onx<SIZE) assert(htp_list_get(c->conn->transactions,c->out_next_tx_index)==denoted);
#if SIZE>=2
    VERIF_COVER(lead==2, "two slots recycled");
#endif
#elif FUNC==3 /* htp_connp_RES_IDLE */
    static unsigned char CH[1]={'H'}; c->out_current_data=CH; c->out_current_len=1; c->out_current_read_offset=0; c->out_state=htp_connp_RES_IDLE; c->in_state=htp_connp_REQ_IDLE;
    htp_tx_t *expect = onx<SIZE ? htp_list_get(c->conn->transactions,onx) : NULL;
    htp_status_t rc=htp_connp_RES_IDLE(c);
    if(expect){ assert(rc==HTP_OK && c->out_tx==expect && c->out_next_tx_index==onx+1 && htp_list_size(c->conn->transactions)==SIZE); }   /* response k goes to slot k */
    else if(rc==HTP_OK){ assert(c->out_tx!=NULL && c->out_next_tx_index==onx+1); for(unsigned i=0;i<SIZE;i++) assert(c->out_tx!=&OLD[i]); }            /* no request: placeholder, never a neighbour */
#if SIZE>=1
    VERIF_COVER(expect!=NULL && onx==SIZE-1, "last slot picked");
#endif
#endif
    VERIF_WITNESS();
}

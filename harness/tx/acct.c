/* C06.acct: real htp_tx_req_process_body_data_ex / htp_tx_res_process_body_data_ex + real hook machinery,
 * up to 3 data calls with symbolic lengths and a final end-of-body call: reported entity length ==
 * bytes delivered to the body callbacks, reported (response) message length == bytes taken. */
#include "verif.h"
#include "htp_private.h"
unsigned verif_nlog;
void htp_log(htp_connp_t *connp, const char *file, int line, enum htp_log_level_t level, int code, const char *fmt, ...){ verif_nlog++; }
void htp_urlenp_destroy(htp_urlenp_t *u){ } void htp_mpartp_destroy(htp_mpartp_t *m){ }
static size_t seen_req, seen_res; static unsigned n_req, n_res, eob_req, eob_res; static const unsigned char *lastp;
static unsigned char BUF[4];
static int cb_req(htp_tx_data_t *d){ if(d->data==NULL) eob_req++; else { assert(eob_req==0); assert(d->len>0); assert(d->data>=BUF && d->data+d->len<=BUF+4); seen_req+=d->len; n_req++; } return HTP_OK; }
static int cb_res(htp_tx_data_t *d){ if(d->data==NULL) eob_res++; else { assert(eob_res==0); assert(d->len>0); assert(d->data>=BUF && d->data+d->len<=BUF+4); seen_res+=d->len; n_res++; } return HTP_OK; }
void harness(void){
    htp_cfg_t *cfg=calloc(1,sizeof(htp_cfg_t)); __CPROVER_assume(cfg);
    htp_config_register_request_body_data(cfg,cb_req); htp_config_register_response_body_data(cfg,cb_res);
    __CPROVER_assume(cfg->hook_request_body_data && cfg->hook_response_body_data);
    htp_connp_t *c=htp_connp_create(cfg); __CPROVER_assume(c);
    htp_tx_t *tx=htp_tx_create(c); __CPROVER_assume(tx); c->in_tx=tx; c->out_tx=tx;
    tx->request_content_encoding=in_bool()?HTP_COMPRESSION_NONE:HTP_COMPRESSION_UNKNOWN; tx->response_content_encoding_processing=HTP_COMPRESSION_NONE;
    size_t sum_req=0, sum_res=0;
    for(int k=0;k<3;k++){ size_t l=in_size_le(4); size_t off=in_size_le(4-l);
        if(in_bool()){ assert(htp_tx_req_process_body_data_ex(tx,BUF+off,l)==HTP_OK); sum_req+=l; }
        else { assert(htp_tx_res_process_body_data_ex(tx,BUF+off,l)==HTP_OK); sum_res+=l; } }
    assert(htp_tx_req_process_body_data_ex(tx,NULL,0)==HTP_OK); assert(htp_tx_res_process_body_data_ex(tx,NULL,0)==HTP_OK);
    assert(tx->request_entity_len==(int64_t)sum_req && seen_req==sum_req);
    assert(tx->response_entity_len==(int64_t)sum_res && seen_res==sum_res && tx->response_message_len==(int64_t)sum_res);
    assert(eob_req==1 && eob_res==1);
    VERIF_COVER(sum_req>0 && sum_res>0, "both directions carried data");
    VERIF_WITNESS();
}

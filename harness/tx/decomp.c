/* C07 (the decidable part): unity include of htp_transaction.c.
 * FUNC 1 (L2, bomb arithmetic): the real per-block callbacks htp_tx_res/req_process_body_data_decompressor_callback
 *   report an error iff, after adding this block (<= 8192 bytes), entity_len > compression_bomb_limit AND
 *   entity_len > 2048 * message_len - for all 64-bit lengths and limits. Together with "after an error nothing more is
 *   delivered" (glue, NOT encoded here, see DESIGN.md C07) this bounds delivery by max(limit, 2048*len) + one buffer.
 * FUNC 2 (layers): htp_tx_state_response_headers on a generated Content-Encoding list with symbolic layer limits and a
 *   counting stub for htp_gzip_decompressor_create: chain length <= layer limit (when set), an lzma layer only within the
 *   first lzma-limit tokens, a stale decompressor of the previous message is destroyed first (C10 steady state). */
#include "verif.h"
#include "htp_private.h"
unsigned verif_nlog;
void htp_log(htp_connp_t *connp, const char *file, int line, enum htp_log_level_t level, int code, const char *fmt, ...){ verif_nlog++; }
static unsigned n_create, n_destroy, n_lzma, n_hookbody; static htp_decompressor_t DEC[6]; static int rc_hook;
#ifndef FAILK
#define FAILK (-1)
#endif
static unsigned n_fail, n_calls_create; static unsigned char dead[6], dead_old; static htp_decompressor_t OLD0;
htp_decompressor_t *htp_gzip_decompressor_create(htp_connp_t *connp, enum htp_content_encoding_t format){ if((int)(n_calls_create++)==FAILK){ n_fail++; return NULL; }   /* C18: the FAILK-th creation fails (allocation failure inside) */
    assert(n_create<5); htp_decompressor_t *d=&DEC[n_create++]; d->next=NULL; if(format==HTP_COMPRESSION_LZMA) n_lzma++; assert(format==HTP_COMPRESSION_GZIP||format==HTP_COMPRESSION_DEFLATE||format==HTP_COMPRESSION_LZMA); return d; }
void htp_gzip_decompressor_destroy(htp_decompressor_t *d){ n_destroy++; for(unsigned i=0;i<6;i++) if(d==&DEC[i]){ assert(!dead[i]); dead[i]=1; } }
htp_status_t htp_gzip_decompressor_decompress(htp_decompressor_t *drec, htp_tx_data_t *d){ return HTP_OK; }
htp_status_t htp_req_run_hook_body_data(htp_connp_t *c, htp_tx_data_t *d){ n_hookbody++; return rc_hook; }
htp_status_t htp_res_run_hook_body_data(htp_connp_t *c, htp_tx_data_t *d){ n_hookbody++; return rc_hook; }
htp_status_t htp_hook_run_all(htp_hook_t *hook, void *user_data){ return HTP_OK; }
htp_status_t htp_connp_res_receiver_finalize_clear(htp_connp_t *c){ return HTP_OK; } htp_status_t htp_connp_req_receiver_finalize_clear(htp_connp_t *c){ return HTP_OK; }
int gettimeofday(struct timeval *tv, void *tz){ tv->tv_sec=(long)in_range(0,3); tv->tv_usec=(long)in_range(0,999999); return 0; }
static htp_header_t H_CE; static int has_ce;
void *htp_table_get_c(const htp_table_t *t, const char *k){ if(k[8]=='e' && has_ce) return &H_CE; return NULL; }    /* "content-encoding" */
#include "htp_transaction.c"
static size_t put(unsigned char *o, const char *s){ size_t k=0; for(;s[k];k++) o[k]=(unsigned char)s[k]; return k; }
void harness(void){
    static htp_cfg_t CFG; static htp_connp_t C; static htp_tx_t TX; static htp_conn_t CONN; static htp_decompressor_t OLD, CUR;
    C.cfg=&CFG; C.conn=&CONN; C.in_tx=&TX; C.out_tx=&TX; TX.connp=&C; TX.cfg=&CFG;
    static htp_cfg_t CFG0;
    /* every byte of the shared configuration is symbolic (then the fields the function reads are constrained below) */
    { unsigned char *cb=(unsigned char*)&CFG; for(size_t i=0;i<sizeof CFG;i++) cb[i]=in_u8(); CFG.hook_response_headers=NULL; CFG.hook_request_body_data=NULL; CFG.hook_response_body_data=NULL; }
#if FUNC==1
    int64_t el=(int64_t)(in_ull()>>2), ml=(int64_t)(in_ull()>>13); int32_t lim=(int32_t)in_range(0,INT32_MAX);   /* the limit field is int32_t; the setter clamps to INT32_MAX */ size_t len=in_size_le(8192);
    CFG.compression_bomb_limit=lim; CFG.compression_time_limit=1<<30; C.out_decompressor=&CUR; C.req_decompressor=&CUR; CUR.nb_callbacks=in_uint()&0xffff;
    htp_tx_data_t d; d.tx=&TX; d.data=(unsigned char*)"x"; d.len=len; rc_hook=in_bool()?HTP_OK:HTP_ERROR; CFG0=CFG;
    unsigned side=in_bool(); htp_status_t rc;
    if(side){ TX.response_entity_len=el; TX.response_message_len=ml; rc=htp_tx_res_process_body_data_decompressor_callback(&d); assert(TX.response_entity_len==el+(int64_t)len); }
    else { TX.request_entity_len=el; TX.request_message_len=ml; rc=htp_tx_req_process_body_data_decompressor_callback(&d); assert(TX.request_entity_len==el+(int64_t)len); }
    assert(n_hookbody==1);
    assert(memcmp(&CFG0,&CFG,sizeof CFG)==0);          /* C19: the shared configuration is never written while parsing */
    { __int128 e=(__int128)el+len; int bomb = e>lim && e>(__int128)2048*ml;
      if(rc_hook!=HTP_OK) assert(rc==HTP_ERROR); else assert((rc==HTP_ERROR)==bomb);
      if(rc==HTP_OK && rc_hook==HTP_OK) assert(e<=lim || e<=(__int128)2048*ml);          /* a block is only accepted inside the bound */
      VERIF_COVER(bomb && rc_hook==HTP_OK, "bomb reported"); VERIF_COVER(!bomb && e>lim, "over the limit but within the ratio"); }
#else
    unsigned char val[32]; size_t n=0; unsigned ntok=NTOK; unsigned kinds[3]={K0,K1,K2};    /* token kinds constant per query; spacing and limits symbolic */
    static const char *TOK[5]={"gzip","deflate","lzma","x","none"};
    for(unsigned i=0;i<3;i++){ if(i<ntok){ if(i>0){ val[n++]=','; if((SPC>>i)&1) val[n++]=' '; } n+=put(val+n,TOK[kinds[i]]); } }
    H_CE.value=bstr_dup_mem(val,n); __CPROVER_assume(H_CE.value); has_ce=1;
    int ll=(int)in_range(0,3), lz=(int)in_range(0,2); CFG.response_decompression_layer_limit=ll; CFG.response_lzma_layer_limit=lz; CFG.response_decompression_enabled=in_bool();
    unsigned stale=in_bool(); if(stale){ C.out_decompressor=&OLD; OLD.next=NULL; }
    TX.response_progress=HTP_RESPONSE_HEADERS; CFG0=CFG;
    htp_status_t rc=htp_tx_state_response_headers(&TX);
    assert(memcmp(&CFG0,&CFG,sizeof CFG)==0);
    /* C18: whatever happened, nothing that was destroyed is still reachable from the connection (teardown would free it again) */
    {   unsigned g=0; for(htp_decompressor_t *p=C.out_decompressor;p&&g<6;p=p->next,g++) for(unsigned i=0;i<6;i++) if(p==&DEC[i]) assert(!dead[i]); }
    if(n_fail) assert(rc==HTP_ERROR);
    if(!n_fail){
    /* chain as built */
    unsigned chain=0; for(htp_decompressor_t *p=C.out_decompressor;p&&chain<6;p=p->next) if(p!=&OLD) chain++;
    assert(chain==n_create);
    if(ll!=0) assert((int)n_create<=ll);                       /* no more layers than configured */
    assert((int)n_lzma<=lz || lz==0 && n_lzma==0);             /* lzma only within its own limit */
    if(!CFG.response_decompression_enabled) assert(n_create==0);
    if(n_create>0 && stale) assert(n_destroy>=1 && C.out_decompressor!=&OLD);      /* the previous message's decompressor is released before a new chain is built */
    if(n_create>0) for(htp_decompressor_t *p=C.out_decompressor;p;p=p->next) assert(p->callback==htp_tx_res_process_body_data_decompressor_callback);
    VERIF_COVER(rc==HTP_OK, "headers accepted");
    }
#endif
    VERIF_WITNESS();
}

/* C05.hist / C16.hist / C04 / C09.G4: bounded histories over the REAL transaction layer
 * (htp_transaction.c, htp_hooks.c, htp_connection*.c, list/table) and the REAL stream-layer states that
 * decide hand-over and completion (REQ_IDLE, REQ_PROTOCOL, REQ_CONNECT_CHECK/WAIT_RESPONSE/PROBE_DATA,
 * REQ_BODY_DETERMINE, REQ_BODY_IDENTITY, REQ_FINALIZE, RES_IDLE, RES_BODY_DETERMINE, RES_FINALIZE).
 * The line/header parsing states are abstract: their parse results (method, status, Content-Length)
 * are the symbolic script. A lifecycle monitor runs in every callback. */
#include "verif.h"
#include "htp_private.h"
#ifndef NREQ
#define NREQ 2
#endif
#ifndef ROUNDS
#define ROUNDS 3
#endif
#ifndef KF_MODE_C04_407_no_yield
#define KF_MODE_C04_407_no_yield 0
#endif
#ifndef KF_MODE_F4_double_complete
#define KF_MODE_F4_double_complete 0
#endif
unsigned verif_nlog;
void htp_log(htp_connp_t *connp, const char *file, int line, enum htp_log_level_t level, int code, const char *fmt, ...){ verif_nlog++; }
/* content parsers are never attached in these histories */
void htp_urlenp_destroy(htp_urlenp_t *u){ assert(u==NULL); }
void htp_mpartp_destroy(htp_mpartp_t *m){ assert(m==NULL); }

enum { P_NONE, P_START, P_LINE, P_HEADERS, P_BODY, P_TRAILER, P_COMPLETE };
#define MT 4
static unsigned req_ph[MT], res_ph[MT], n_reqc[MT], n_resc[MT], n_txc[MT], eob_req[MT], eob_res[MT], body_req[MT], body_res[MT], n_cb;
static unsigned order[MT], n_order;          /* indices in TRANSACTION_COMPLETE order */
static unsigned req_tag[MT], res_tag[MT];    /* ghost ids: which scripted request / response landed in tx i */
static htp_connp_t *P; static htp_cfg_t *CFG;
static int ix(htp_tx_t *t){ assert(t!=NULL); assert(t->index<MT-1); return (int)t->index; }
static int f4_tx=-1;   /* index of the transaction hit by known finding F4 (mode 1 tolerates exactly its symptom: one extra TRANSACTION_COMPLETE) */
#define LIVE(i) assert(n_txc[i]==0)        /* no callback for a transaction after its TRANSACTION_COMPLETE */
static int cb_req_start(htp_tx_t *t){ int i=ix(t); n_cb++; LIVE(i); assert(req_ph[i]==P_NONE); req_ph[i]=P_START; return HTP_OK; }
static int cb_req_line(htp_tx_t *t){ int i=ix(t); n_cb++; LIVE(i); assert(req_ph[i]==P_START); req_ph[i]=P_LINE; return HTP_OK; }
static int cb_req_headers(htp_tx_t *t){ int i=ix(t); n_cb++; LIVE(i); assert(req_ph[i]==P_LINE); req_ph[i]=P_HEADERS; return HTP_OK; }
static int cb_req_body(htp_tx_data_t *d){ int i=ix(d->tx); n_cb++; LIVE(i); assert(req_ph[i]==P_HEADERS||req_ph[i]==P_BODY); req_ph[i]=P_BODY; if(d->data==NULL){ assert(d->len==0); eob_req[i]++; } else { assert(eob_req[i]==0); body_req[i]+=d->len; } return HTP_OK; }
static int cb_req_trailer(htp_tx_t *t){ int i=ix(t); n_cb++; LIVE(i); assert(req_ph[i]==P_HEADERS||req_ph[i]==P_BODY); req_ph[i]=P_TRAILER; return HTP_OK; }
static int cb_req_complete(htp_tx_t *t){ int i=ix(t); n_cb++; LIVE(i); assert(req_ph[i]>=P_START && req_ph[i]<P_COMPLETE); if(body_req[i]) assert(eob_req[i]==1); req_ph[i]=P_COMPLETE; n_reqc[i]++; assert(t->request_progress==HTP_REQUEST_COMPLETE); return HTP_OK; }
static int cb_res_start(htp_tx_t *t){ int i=ix(t); n_cb++; LIVE(i); assert(res_ph[i]==P_NONE); res_ph[i]=P_START; return HTP_OK; }
static int cb_res_line(htp_tx_t *t){ int i=ix(t); n_cb++; LIVE(i); assert(res_ph[i]==P_START || ((res_ph[i]==P_LINE||res_ph[i]==P_HEADERS) && t->seen_100continue));   /* the documented restart after an interim 100 */ res_ph[i]=P_LINE; return HTP_OK; }
static int cb_res_headers(htp_tx_t *t){ int i=ix(t); n_cb++; LIVE(i); assert(res_ph[i]==P_LINE); res_ph[i]=P_HEADERS; return HTP_OK; }
static int cb_res_body(htp_tx_data_t *d){ int i=ix(d->tx); n_cb++; LIVE(i); assert(res_ph[i]==P_HEADERS||res_ph[i]==P_BODY); res_ph[i]=P_BODY; if(d->data==NULL){ eob_res[i]++; } else { assert(eob_res[i]==0); body_res[i]+=d->len; } return HTP_OK; }
static int cb_res_complete(htp_tx_t *t){ int i=ix(t); n_cb++; LIVE(i); assert(res_ph[i]>=P_START && res_ph[i]<P_COMPLETE); if(body_res[i]) assert(eob_res[i]>=1); res_ph[i]=P_COMPLETE; n_resc[i]++; assert(t->response_progress==HTP_RESPONSE_COMPLETE); return HTP_OK; }
static int cb_txc(htp_tx_t *t){ int i=ix(t); n_cb++; assert(req_ph[i]==P_COMPLETE && res_ph[i]==P_COMPLETE); assert(t->request_progress==HTP_REQUEST_COMPLETE && t->response_progress==HTP_RESPONSE_COMPLETE);
    if(n_txc[i]>=1) assert(KF_MODE_F4_double_complete==1 && i==f4_tx && n_txc[i]==1);
    n_txc[i]++; if(n_txc[i]==1){ order[n_order++]=(unsigned)i; assert(req_tag[i]==res_tag[i]); } return HTP_OK; }

/* ---- script ---- */
static unsigned METHOD[NREQ], HASBODY[NREQ], STATUS[NREQ], TUNNEL_HTTP; static unsigned next_req, next_res;
static unsigned char CH[8];
static void chunk_in(const char *s, size_t n){ for(size_t i=0;i<n;i++) CH[i]=(unsigned char)s[i]; P->in_current_data=CH; P->in_current_len=(int64_t)n; P->in_current_read_offset=0; P->in_current_consume_offset=0; P->in_current_receiver_offset=0; }
static void chunk_out(const char *s, size_t n){ static unsigned char CO[8]; for(size_t i=0;i<n;i++) CO[i]=(unsigned char)s[i]; P->out_current_data=CO; P->out_current_len=(int64_t)n; P->out_current_read_offset=0; P->out_current_consume_offset=0; P->out_current_receiver_offset=0; }
static size_t req_left;   /* request bytes still "on the wire" (abstract): >0 means the caller has unconsumed request data */

static htp_status_t req_dispatch(void){
    htp_connp_t *c=P;
    if(c->in_state==htp_connp_REQ_IDLE){ if(next_req>=NREQ){ chunk_in("",0); return HTP_DATA; } chunk_in("X",1); return htp_connp_REQ_IDLE(c); }
    if(c->in_state==htp_connp_REQ_LINE){ htp_tx_t *t=c->in_tx; unsigned k=next_req++; req_tag[ix(t)]=k+1; t->request_method_number=METHOD[k]; t->request_protocol_number=HTP_PROTOCOL_1_0;
        t->parsed_uri=calloc(1,sizeof(htp_uri_t)); __CPROVER_assume(t->parsed_uri); t->parsed_uri->port_number=-1;
        if(HASBODY[k]){ /* abstract result of parsing "Content-Length: 1" */ }
        htp_status_t rc=htp_hook_run_all(c->cfg->hook_request_line,t); if(rc!=HTP_OK) return rc; c->in_state=htp_connp_REQ_PROTOCOL; return HTP_OK; }
    if(c->in_state==htp_connp_REQ_PROTOCOL){ chunk_in("",0); return htp_connp_REQ_PROTOCOL(c); }
    if(c->in_state==htp_connp_REQ_HEADERS){ htp_tx_t *t=c->in_tx; htp_status_t rc=htp_tx_state_request_headers(t);
        if(rc==HTP_OK && req_tag[ix(t)] && HASBODY[req_tag[ix(t)]-1] && t->request_progress==HTP_REQUEST_HEADERS){ t->request_transfer_coding=HTP_CODING_IDENTITY; t->request_content_length=1; } return rc; }
    if(c->in_state==htp_connp_REQ_CONNECT_CHECK) return htp_connp_REQ_CONNECT_CHECK(c);
    if(c->in_state==htp_connp_REQ_CONNECT_WAIT_RESPONSE) return htp_connp_REQ_CONNECT_WAIT_RESPONSE(c);
    if(c->in_state==htp_connp_REQ_CONNECT_PROBE_DATA){ if(TUNNEL_HTTP) chunk_in("GET /\n",6); else chunk_in("\x16\x03\n",3); return htp_connp_REQ_CONNECT_PROBE_DATA(c); }
    if(c->in_state==htp_connp_REQ_BODY_DETERMINE) return htp_connp_REQ_BODY_DETERMINE(c);
    if(c->in_state==htp_connp_REQ_BODY_IDENTITY){ chunk_in("b",1); return htp_connp_REQ_BODY_IDENTITY(c); }
    if(c->in_state==htp_connp_REQ_FINALIZE){ chunk_in("",0); return htp_connp_REQ_FINALIZE(c); }
    assert(0); return HTP_ERROR;
}
/* the request driver's loop and return-code mapping (htp_connp_req_data, verified against stubs in drv_req.c) */
static int req_run(void){ htp_connp_t *c=P;
    if(c->in_status==HTP_STREAM_STOP||c->in_status==HTP_STREAM_ERROR||c->in_status==HTP_STREAM_TUNNEL) return c->in_status;
    if(c->out_status==HTP_STREAM_DATA_OTHER) c->out_status=HTP_STREAM_DATA;
    for(int k=0;k<9*NREQ+3;k++){ htp_status_t rc=req_dispatch();
        if(rc==HTP_OK){ if(c->in_status==HTP_STREAM_TUNNEL) return HTP_STREAM_TUNNEL; c->in_state_previous=c->in_state; continue; }
        if(rc==HTP_DATA||rc==HTP_DATA_BUFFER){ c->in_status=HTP_STREAM_DATA; return HTP_STREAM_DATA; }
        if(rc==HTP_DATA_OTHER){ c->in_status=HTP_STREAM_DATA_OTHER; return HTP_STREAM_DATA_OTHER; }
        if(rc==HTP_STOP){ c->in_status=HTP_STREAM_STOP; return HTP_STREAM_STOP; }
        c->in_status=HTP_STREAM_ERROR; return HTP_STREAM_ERROR; }
    assert(0); return -1; }
static bstr *mkb(const char *s){ bstr *b=bstr_dup_c(s); __CPROVER_assume(b); return b; }
static htp_status_t res_dispatch(void){
    htp_connp_t *c=P;
    if(c->out_state==htp_connp_RES_IDLE){ if(next_res>=NREQ){ chunk_out("",0); return HTP_DATA; } chunk_out("H",1); return htp_connp_RES_IDLE(c); }
    if(c->out_state==htp_connp_RES_LINE){ htp_tx_t *t=c->out_tx; unsigned k=next_res; res_tag[ix(t)]=k+1;
        unsigned st=STATUS[k]; if(st==100 && t->seen_100continue) st=200;      /* the final answer after an interim 100 */
        if(!(STATUS[k]==100 && t->seen_100continue==0)) next_res++;
        t->response_status_number=(int)st; t->response_protocol_number=HTP_PROTOCOL_1_0;
        htp_status_t rc=htp_hook_run_all(c->cfg->hook_response_line,t); if(rc!=HTP_OK) return rc; c->out_state=htp_connp_RES_HEADERS; t->response_progress=HTP_RESPONSE_HEADERS; return HTP_OK; }
    if(c->out_state==htp_connp_RES_HEADERS){ htp_tx_t *t=c->out_tx;
        if(t->response_progress==HTP_RESPONSE_HEADERS){ if(t->response_status_number!=100 && t->response_status_number!=101){ /* abstract result of "Content-Length: 0" */
                htp_header_t *h=calloc(1,sizeof *h); __CPROVER_assume(h); h->name=mkb("Content-Length"); h->value=mkb("0"); assert(htp_table_add(t->response_headers,h->name,h)==HTP_OK); }
            c->out_state=htp_connp_RES_BODY_DETERMINE; return HTP_OK; }
        assert(0); return HTP_ERROR; }
    if(c->out_state==htp_connp_RES_BODY_DETERMINE) return htp_connp_RES_BODY_DETERMINE(c);
    if(c->out_state==htp_connp_RES_FINALIZE){ chunk_out("",0); return htp_connp_RES_FINALIZE(c); }
    assert(0); return HTP_ERROR;
}
static int res_run(void){ htp_connp_t *c=P;
    if(c->out_status==HTP_STREAM_STOP||c->out_status==HTP_STREAM_ERROR||c->out_status==HTP_STREAM_TUNNEL) return c->out_status;
    for(int k=0;k<9*NREQ+3;k++){ htp_status_t rc=res_dispatch();
        if(rc==HTP_OK){ if(c->out_status==HTP_STREAM_TUNNEL) return HTP_STREAM_TUNNEL; c->out_state_previous=c->out_state; continue; }
        if(rc==HTP_DATA||rc==HTP_DATA_BUFFER){ c->out_status=HTP_STREAM_DATA; return HTP_STREAM_DATA; }
        if(rc==HTP_STOP){ c->out_status=HTP_STREAM_STOP; return HTP_STREAM_STOP; }
        if(rc==HTP_DATA_OTHER){ c->out_status=HTP_STREAM_DATA_OTHER; return HTP_STREAM_DATA_OTHER; }
        c->out_status=HTP_STREAM_ERROR; return HTP_STREAM_ERROR; }
    assert(0); return -1; }

void harness(void){
    CFG=calloc(1,sizeof(htp_cfg_t)); __CPROVER_assume(CFG);
    htp_config_register_request_start(CFG,cb_req_start); htp_config_register_request_line(CFG,cb_req_line); htp_config_register_request_headers(CFG,cb_req_headers);
    htp_config_register_request_body_data(CFG,cb_req_body); htp_config_register_request_trailer(CFG,cb_req_trailer); htp_config_register_request_complete(CFG,cb_req_complete);
    htp_config_register_response_start(CFG,cb_res_start); htp_config_register_response_line(CFG,cb_res_line); htp_config_register_response_headers(CFG,cb_res_headers);
    htp_config_register_response_body_data(CFG,cb_res_body); htp_config_register_response_complete(CFG,cb_res_complete); htp_config_register_transaction_complete(CFG,cb_txc);
    __CPROVER_assume(CFG->hook_request_start&&CFG->hook_request_line&&CFG->hook_request_headers&&CFG->hook_request_body_data&&CFG->hook_request_trailer&&CFG->hook_request_complete&&CFG->hook_response_start&&CFG->hook_response_line&&CFG->hook_response_headers&&CFG->hook_response_body_data&&CFG->hook_response_complete&&CFG->hook_transaction_complete);
    CFG->field_limit_hard=18000;
    P=htp_connp_create(CFG); __CPROVER_assume(P);
    P->in_status=HTP_STREAM_OPEN; P->out_status=HTP_STREAM_OPEN;
    /* the script is concrete per query (symbolic scripts did not finish: DESIGN.md section 1); what the solver decides per query
     * is the run of the real code on it, including every pointer / free / bounds check under auto-destroy */
#ifndef M0
#define M0 HTP_M_GET
#endif
#ifndef B0
#define B0 0
#endif
#ifndef S0
#define S0 200
#endif
#ifndef M1
#define M1 HTP_M_GET
#endif
#ifndef S1
#define S1 200
#endif
#ifndef M2
#define M2 HTP_M_GET
#endif
#ifndef S2
#define S2 200
#endif
#ifndef TH
#define TH 0
#endif
    { unsigned m[3]={M0,M1,M2}, st[3]={S0,S1,S2}; for(int k=0;k<NREQ;k++){ METHOD[k]=m[k]; STATUS[k]=st[k]; HASBODY[k]=(k==0)?B0:0; } }
    TUNNEL_HTTP=TH; CFG->tx_auto_destroy=AD;
    /* known finding F4: after a CONNECT the response side yields DATA_OTHER from htp_tx_state_response_complete_ex with the response
     * already marked complete but still attached; when the request side then completes (refused CONNECT, or accepted CONNECT whose
     * tunnel carries HTTP) the transaction is finalised by both sides: TRANSACTION_COMPLETE twice */
    { int f4=0; for(int k=0;k<NREQ;k++) if(METHOD[k]==HTP_M_CONNECT && (STATUS[k]==404 || (STATUS[k]==200 && TUNNEL_HTTP))){ f4=1; f4_tx=k; } if(KF_MODE_F4_double_complete==2) __CPROVER_assume(f4); }
    /* legal schedule: request data is offered first; afterwards the caller follows the documented hand-over protocol:
     * on DATA_OTHER from one side it feeds the other side before coming back */
    /* known finding: a CONNECT answered 407 does not make the response side yield at the end of that transaction, so a pipelined
     * follow-up response is parsed before its request and lands in a placeholder transaction that also hijacks in_tx */
    { int k407=0; for(int k=0;k+1<NREQ;k++) if(METHOD[k]==HTP_M_CONNECT && STATUS[k]==407) k407=1; KF_GATE(KF_MODE_C04_407_no_yield, k407); }
    int rq=-1, rs=-1; unsigned pingpong=0;
    for(int r=0;r<ROUNDS;r++){
        int prev_rq=rq, prev_rs=rs; unsigned cb0=n_cb, nr0=next_req, ns0=next_res;
        rq=req_run();
        assert(rq==HTP_STREAM_DATA||rq==HTP_STREAM_DATA_OTHER||rq==HTP_STREAM_TUNNEL||rq==HTP_STREAM_ERROR);
        rs=res_run();
        assert(rs==HTP_STREAM_DATA||rs==HTP_STREAM_DATA_OTHER||rs==HTP_STREAM_TUNNEL||rs==HTP_STREAM_ERROR);
        /* C09.G4 progress: a full round in which both sides hand over makes progress */
        if(rq==HTP_STREAM_DATA_OTHER && rs==HTP_STREAM_DATA_OTHER && r>0 && prev_rq==HTP_STREAM_DATA_OTHER && prev_rs==HTP_STREAM_DATA_OTHER) assert(n_cb>cb0 || next_req>nr0 || next_res>ns0);
        /* C16: in tunnel mode nothing more is produced */
        if(rq==HTP_STREAM_TUNNEL && prev_rq==HTP_STREAM_TUNNEL && rs==HTP_STREAM_TUNNEL && prev_rs==HTP_STREAM_TUNNEL) assert(n_cb==cb0);
    }
    /* ---- end-of-history clauses ---- */
    for(int i=0;i<MT;i++){ assert(n_reqc[i]<=1 && n_resc[i]<=1); assert(n_txc[i]<=1 || (KF_MODE_F4_double_complete==1 && i==f4_tx && n_txc[i]==2)); if(n_txc[i]) assert(n_reqc[i]==1 && n_resc[i]==1); }
    for(unsigned i=0;i+1<MT;i++) if(i+1<n_order) assert(order[i]<order[i+1]);      /* C04: transactions complete in arrival order */
    /* C04: pipelining indicator iff a request was started before the response to an earlier one had begun */
    if(rq!=HTP_STREAM_ERROR && rs!=HTP_STREAM_ERROR && METHOD[0]==HTP_M_GET && !P->conn->transactions) {}
    VERIF_COVER(n_txc[0]>=1 || rq==HTP_STREAM_TUNNEL, "first transaction completes or a tunnel is established");
    VERIF_WITNESS();
}

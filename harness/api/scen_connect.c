/* API-level scenario: the REAL library end to end (all units, real drivers, real parsers) on CONCRETE
 * byte streams, with the small dimensions that matter symbolic: response status, auto-destroy, who is
 * fed first. Oracle: C05 lifecycle monitor (counts per transaction, order), C16 consumption. */
#include "verif.h"
#include "htp_private.h"
#ifndef KF_MODE_F4_double_complete
#define KF_MODE_F4_double_complete 0
#endif
static unsigned n_txc[4], n_reqc[4], n_resc[4], n_after[4], n_start[4];
static int idx(htp_tx_t *t){ return t->index<3?(int)t->index:3; }
static int cb_txc(htp_tx_t *t){ int i=idx(t); assert(t->request_progress==HTP_REQUEST_COMPLETE && t->response_progress==HTP_RESPONSE_COMPLETE); n_txc[i]++; return HTP_OK; }
static int cb_reqc(htp_tx_t *t){ int i=idx(t); if(n_txc[i]) n_after[i]++; n_reqc[i]++; return HTP_OK; }
static int cb_resc(htp_tx_t *t){ int i=idx(t); if(n_txc[i]) n_after[i]++; n_resc[i]++; return HTP_OK; }
static int cb_start(htp_tx_t *t){ n_start[idx(t)]++; return HTP_OK; }
static const char REQ[]="CONNECT h:1 HTTP/1.0\r\n\r\nGET / HTTP/1.0\r\n\r\n";
static const char RES404[]="HTTP/1.0 404 NF\r\nContent-Length: 0\r\n\r\nHTTP/1.0 200 OK\r\nContent-Length: 0\r\n\r\n";
void harness(void){
    htp_cfg_t *cfg=htp_config_create(); __CPROVER_assume(cfg);
    htp_config_set_server_personality(cfg,HTP_SERVER_GENERIC);
    htp_config_register_transaction_complete(cfg,cb_txc); htp_config_register_request_complete(cfg,cb_reqc); htp_config_register_response_complete(cfg,cb_resc); htp_config_register_request_start(cfg,cb_start);
    unsigned ad=in_bool(); htp_config_set_tx_auto_destroy(cfg,ad);
    KF_GATE(KF_MODE_F4_double_complete, 1);
    htp_connp_t *p=htp_connp_create(cfg); __CPROVER_assume(p);
    htp_connp_open(p,"1.1.1.1",1,"2.2.2.2",2,NULL);
    int r1=htp_connp_req_data(p,NULL,REQ,sizeof REQ-1); size_t c1=htp_connp_req_data_consumed(p);
    assert(r1==HTP_STREAM_DATA_OTHER && c1==24);   /* nothing beyond the CONNECT request is consumed */
    int r2=htp_connp_res_data(p,NULL,RES404,sizeof RES404-1); size_t c2=htp_connp_res_data_consumed(p);
    assert(r2==HTP_STREAM_DATA_OTHER && c2<sizeof RES404-1);
    int r3=htp_connp_req_data(p,NULL,REQ+c1,sizeof REQ-1-c1);
    assert(r3==HTP_STREAM_DATA);
    int r4=htp_connp_res_data(p,NULL,RES404+c2,sizeof RES404-1-c2);
    assert(r4==HTP_STREAM_DATA || r4==HTP_STREAM_ERROR);
    for(int i=0;i<4;i++){ assert(n_reqc[i]<=1 && n_resc[i]<=1 && n_after[i]==0); assert(n_txc[i]<=1); }
    assert(n_start[0]==1 && n_start[1]==1 && n_start[2]==0);
    VERIF_WITNESS();
}

/* C01 (units): real functions on heap buffers of EXACTLY LEN bytes (constant per query) with every byte and
 * every configuration switch symbolic; CBMC's pointer / bounds / free checks are the assertions. */
#include "verif.h"
#include "htp_private.h"
#ifndef LEN
#define LEN 4
#endif
unsigned verif_nlog;
void htp_log(htp_connp_t *connp, const char *file, int line, enum htp_log_level_t level, int code, const char *fmt, ...){ verif_nlog++; }
static htp_cfg_t CFG; static htp_connp_t C; static htp_tx_t TX; static htp_conn_t CONN;
static const unsigned char MAP[] = { 0x01,0x00,'A',  0xff,0x0f,'/',  0x24,0x00,0x00,  0,0,0 };
static void sym_cfg(htp_decoder_cfg_t *d){
    d->backslash_convert_slashes=in_bool(); d->convert_lowercase=in_bool(); d->path_separators_compress=in_bool(); d->path_separators_decode=in_bool();
    d->plusspace_decode=in_bool(); d->u_encoding_decode=in_bool(); d->nul_encoded_terminates=in_bool(); d->nul_raw_terminates=in_bool(); d->url_encoding_invalid_handling=in_range(0,2);
    d->u_encoding_unwanted=in_bool()?400:0; d->url_encoding_invalid_unwanted=in_bool()?400:0; d->nul_encoded_unwanted=in_bool()?404:0; d->nul_raw_unwanted=in_bool()?400:0;
    d->control_chars_unwanted=in_bool()?400:0; d->path_separators_encoded_unwanted=in_bool()?404:0; d->utf8_invalid_unwanted=in_bool()?400:0; d->utf8_convert_bestfit=in_bool();
    d->bestfit_map=(unsigned char*)MAP; d->bestfit_replacement_byte=in_u8(); }
void harness(void){
    C.cfg=&CFG; C.in_tx=&TX; C.out_tx=&TX; C.conn=&CONN; TX.connp=&C; TX.cfg=&CFG;
    for(int i=0;i<3;i++) sym_cfg(&CFG.decoder_cfgs[i]);
    /* exact-size objects: a wrapped bstr over a malloc(LEN) block, and an inline bstr of size LEN */
    unsigned char *raw=malloc(LEN); __CPROVER_assume(raw!=NULL||LEN==0); for(size_t i=0;i<LEN;i++) raw[i]=in_u8();
#if FUNC<=5
    /* in-place functions: a WRAPPED bstr over the exact-size block, so that even data[-1] is outside every object */
    bstr *b=bstr_wrap_mem(raw,LEN); __CPROVER_assume(b);
#else
    bstr *b=bstr_alloc(LEN); __CPROVER_assume(b); for(size_t i=0;i<LEN;i++) bstr_ptr(b)[i]=raw[i]; bstr_adjust_len(b,LEN);
#endif
#if FUNC==1
    assert(htp_decode_path_inplace(&TX,b)==HTP_OK); assert(bstr_len(b)<=LEN);
#elif FUNC==2
    { uint64_t fl=0; int st=0; unsigned ctx=in_range(0,2); htp_urldecode_inplace_ex(&CFG,ctx,b,&fl,&st); assert(bstr_len(b)<=LEN); }
#elif FUNC==3
    htp_utf8_decode_path_inplace(&CFG,&TX,b); assert(bstr_len(b)<=LEN);
#elif FUNC==4
    htp_utf8_validate_path(&TX,b); assert(bstr_len(b)==LEN);
#elif FUNC==5
    htp_normalize_uri_path_inplace(b); assert(bstr_len(b)<=LEN);
#elif FUNC==6   /* header parsers are entered with a raw chunk pointer */
    { static htp_header_t h1,h2; if(LEN>0){ htp_parse_request_header_generic(&C,&h1,raw,LEN); htp_parse_response_header_generic(&C,&h2,raw,LEN); } }
#elif FUNC==7
    { TX.response_line=b; htp_parse_response_line_generic(&C); }
#elif FUNC==8
    { TX.request_line=b; CFG.allow_space_uri=in_bool(); CFG.server_personality=in_range(0,9); htp_parse_request_line_generic(&C); }
#elif FUNC==9
    { bstr *h=NULL,*p=NULL; int pn=0,inv=0; htp_parse_hostport(b,&h,&p,&pn,&inv); if(h) htp_validate_hostname(h); }   /* htp_parse_uri: C13 runs it with all memory checks on */
#elif FUNC==10
    { int ext=0; htp_parse_chunked_length(raw,LEN,&ext); htp_parse_content_length(b,NULL); htp_parse_positive_integer_whitespace(raw,LEN,10); htp_header_has_token(raw,LEN,(unsigned char*)"chunked"); }
#elif FUNC==11
    { bstr *ct=NULL; htp_parse_ct_header(b,&ct); size_t l=LEN; unsigned char *d=raw; int r=0; htp_chomp(raw,&l); (void)htp_connp_is_line_terminator(&C,raw,LEN,in_bool()); (void)htp_connp_is_line_folded(raw,LEN); (void)htp_treat_response_line_as_body(raw,LEN); }
#elif FUNC==12
    { bstr *out=NULL; size_t end=0; htp_extract_quoted_string_as_bstr(raw,LEN,&out,&end); bstr *m=htp_convert_method_to_number(b)?NULL:NULL; (void)m; }
#endif
    VERIF_WITNESS();
}

/* C19.hooks / C19.frame: running hooks never modifies the (shared) hook object, its callback list or the
 * configuration; hooks are iterated, not modified, while running. Real htp_hooks.c + htp_list.c. */
#include "verif.h"
#include "htp_private.h"
static unsigned n_called; static int rcs[3];
/* a second connection may be inside the same (shared) hook while this callback runs: from inside the first callback the hook object
 * must look exactly as registered, and a run of the same hook on behalf of the other connection must call every callback */
static htp_hook_t *G_h; static unsigned char G_snap[sizeof(htp_hook_t)]; static int depth; static unsigned n_inner; static htp_status_t r_inner; static int inner_done;
static int cb0(void *p){ if(depth==0 && G_h!=NULL){ depth=1; assert(memcmp(G_snap,G_h,sizeof(htp_hook_t))==0); unsigned keep=n_called; n_called=0; r_inner=htp_hook_run_all(G_h,&n_called); n_inner=n_called; n_called=keep; inner_done=1; depth=0; }
    n_called++; return rcs[0]; } static int cb1(void *p){ n_called++; return rcs[1]; } static int cb2(void *p){ n_called++; return rcs[2]; }
static int pick(void){ unsigned v=in_range(0,3); return v==0?HTP_OK: v==1?HTP_DECLINED: v==2?HTP_STOP:HTP_ERROR; }
void harness(void){
    htp_hook_t *h=NULL; unsigned n=in_range(1,3);
    assert(htp_hook_register(&h,cb0)==HTP_OK); if(n>=2) assert(htp_hook_register(&h,cb1)==HTP_OK); if(n>=3) assert(htp_hook_register(&h,cb2)==HTP_OK);
    for(int i=0;i<3;i++) rcs[i]=pick();
    /* snapshot of everything reachable from the shared hook */
    unsigned char snap[sizeof(htp_hook_t)]; memcpy(snap,h,sizeof(htp_hook_t));
    htp_list_array_t lsnap=*(htp_list_array_t*)h->callbacks; void *els[3]; htp_callback_t cbs[3];
    for(unsigned i=0;i<3;i++) if(i<n){ els[i]=htp_list_get(h->callbacks,i); cbs[i]=*(htp_callback_t*)els[i]; }
    /* two connections run the same hook one after the other */
    htp_status_t r1=htp_hook_run_all(h,&n_called); unsigned c1=n_called; n_called=0;
    /* ... and at overlapping times: connection B runs the hook while connection A is inside its first callback */
    G_h=h; memcpy(G_snap,snap,sizeof snap); htp_status_t r3=htp_hook_run_all(h,&n_called); unsigned c3=n_called; n_called=0; G_h=NULL;
    assert(inner_done && r3==r1 && c3==c1 && r_inner==r1 && n_inner==c1);
    assert(memcmp(snap,h,sizeof(htp_hook_t))==0);
    assert(memcmp(&lsnap,h->callbacks,sizeof lsnap)==0);
    for(unsigned i=0;i<3;i++) if(i<n){ assert(htp_list_get(h->callbacks,i)==els[i]); assert(memcmp(&cbs[i],els[i],sizeof(htp_callback_t))==0); }
    htp_status_t r2=htp_hook_run_all(h,&n_called); unsigned c2=n_called;
    assert(r1==r2 && c1==c2);                      /* the second connection sees exactly what the first saw */
    /* semantics: callbacks run in registration order until one returns something other than OK / DECLINED */
    unsigned exp=0; htp_status_t er=HTP_OK; for(unsigned i=0;i<3;i++) if(i<n && er==HTP_OK){ exp++; if(rcs[i]!=HTP_OK && rcs[i]!=HTP_DECLINED) er=rcs[i]; }
    assert(c1==exp && r1==er);
    VERIF_COVER(r1==HTP_STOP && c1==2, "second callback stops"); 
    VERIF_WITNESS();
}

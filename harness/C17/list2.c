/* C17.list2: two consecutive operations from an arbitrary ring state (checks that the post-state of
 * one operation, in particular growth, is a good pre-state for the next: push;push, push;shift ...) */
#include "verif.h"
#include "htp_private.h"
#ifndef CAP
#define CAP 3
#endif
#ifndef FIRST
#define FIRST 1
#endif
#ifndef SIZE
#define SIZE CAP
#endif
#ifndef OP1
#define OP1 0
#define OP2 0
#endif
static char tags[256];
void harness(void){
    htp_list_array_t L;
    void **el=malloc(CAP*sizeof(void*)); __CPROVER_assume(el!=NULL);
    L.elements=el; L.max_size=CAP; L.first=FIRST;
    L.current_size=SIZE;   /* concrete: CBMC's byte-level memcpy of a pointer array loses the pointers when first/size arithmetic is symbolic */ L.last=(FIRST+L.current_size)%CAP;
    for(size_t i=0;i<CAP;i++) el[i]=&tags[in_u8()];
    void *seq[CAP+2]; size_t n=L.current_size;
    for(size_t i=0;i<CAP;i++) seq[i]=el[(FIRST+i)%CAP];
    for(int step=0;step<2;step++){
        unsigned op=(step==0)?OP1:OP2;   /* constants per query: CBMC's memcpy of a pointer array needs concrete first/size arithmetic */
        if(op==0){ void *e=&tags[in_u8()]; assert(htp_list_array_push(&L,e)==HTP_OK); seq[n++]=e; }
        else if(op==1){ void *r=htp_list_array_pop(&L); if(n==0) assert(r==NULL); else { assert(r==seq[n-1]); n--; } }
        else { void *r=htp_list_array_shift(&L); if(n==0) assert(r==NULL); else { assert(r==seq[0]); for(size_t i=0;i+1<CAP+2;i++) seq[i]=seq[i+1]; n--; } }
        assert(htp_list_array_size(&L)==n);
        for(size_t i=0;i<CAP+2;i++) if(i<n) assert(htp_list_array_get(&L,i)==seq[i]);
        assert(htp_list_array_get(&L,n)==NULL);
    }
    VERIF_WITNESS();
}

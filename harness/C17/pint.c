/* C17.numbers: bstr_util_mem_to_pint (base 10 / 16) against the value computed in unsigned __int128:
 * exact when it fits int64, -2 on overflow, -1 without a digit; lastlen = digits consumed. */
#include "verif.h"
#include "bstr.h"
#ifndef N
#define N 20
#endif
#ifndef BASE
#define BASE 10
#endif
static int dig(unsigned char c){ int d=-1; if(c>='0'&&c<='9') d=c-'0'; else if(c>='a'&&c<='z') d=c-'a'+10; else if(c>='A'&&c<='Z') d=c-'A'+10; return (d>=0&&d<BASE)?d:-1; }
void harness(void){
    unsigned char buf[N]; for(int i=0;i<N;i++) buf[i]=in_u8();
    size_t len=in_size_le(N); __CPROVER_assume(len>=1);   /* callers never pass an empty string; the empty case is unspecified */
#ifdef ALLDIGITS
    for(int i=0;i<N;i++) if((size_t)i<len) __CPROVER_assume(dig(buf[i])>=0);
#endif
    size_t last=99; int64_t r=bstr_util_mem_to_pint(buf,len,BASE,&last);
    unsigned __int128 v=0; size_t nd=0; int ovf=0;
    for(int i=0;i<N;i++){ if((size_t)i>=len) break; int d=dig(buf[i]); if(d<0) break; v=v*BASE+d; if(v>(unsigned __int128)INT64_MAX) ovf=1; nd++; }
    if(nd==0){ assert(r==-1); }
    else if(ovf){ assert(r==-2); }
    else { assert(r==(int64_t)v); if(nd==len) assert(last==len+1 || last==len); else assert(last==nd); }
#ifdef ALLDIGITS
    VERIF_COVER(r==INT64_MAX, "INT64_MAX parsed exactly"); VERIF_COVER(r==-2, "overflow reported");
#else
    VERIF_COVER(nd>0 && nd<len, "stops at first non-digit");
#endif
    VERIF_WITNESS();
}

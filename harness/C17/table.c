/* C17.table: htp_table as an insertion-ordered multimap with case-insensitive first-match lookup.
 * Real htp_table.c + htp_list.c + bstr.c; K stored pairs with keys of <= KL symbolic bytes. */
#include "verif.h"
#include "htp_private.h"
#ifndef K
#define K 3
#endif
#ifndef KL
#define KL 2
#endif
static char vals[8];
static int lc(int c){ return (c>='A'&&c<='Z')?c+32:c; }
static int eq_nocase(const unsigned char *a,size_t al,const unsigned char *b,size_t bl){ if(al!=bl) return 0; for(size_t i=0;i<KL;i++) if(i<al && lc(a[i])!=lc(b[i])) return 0; return 1; }
/* stored key with NUL bytes skipped == c string, case-insensitive */
static int eq_norzero(const unsigned char *a,size_t al,const unsigned char *c,size_t cl){ size_t j=0; for(size_t i=0;i<KL;i++) if(i<al){ if(a[i]==0) continue; if(j>=cl) return 0; if(lc(a[i])!=lc(c[j])) return 0; j++; } return j==cl; }
void harness(void){
    htp_table_t *t=htp_table_create(K+1);   /* no growth here: growth is the list obligations' subject */ __CPROVER_assume(t!=NULL);
    unsigned char kb[K][KL]; size_t kl[K]; bstr *keys[K];
#ifdef MODE
    unsigned mode=MODE;
#else
    unsigned mode=in_range(0,2);
#endif
    unsigned n=in_range(0,K);
    assert(htp_table_size(t)==0);
    for(unsigned i=0;i<K;i++) if(i<n){
        kl[i]=in_size_le(KL); keys[i]=bstr_alloc(KL); __CPROVER_assume(keys[i]);
        for(size_t j=0;j<KL;j++){ kb[i][j]=in_u8(); bstr_ptr(keys[i])[j]=kb[i][j]; }
        bstr_adjust_len(keys[i],kl[i]);
        htp_status_t rc = mode==0?htp_table_add(t,keys[i],&vals[i]) : mode==1?htp_table_addn(t,keys[i],&vals[i]) : htp_table_addk(t,keys[i],&vals[i]);
        assert(rc==HTP_OK); assert(htp_table_size(t)==i+1);
    }
#ifndef NO_ORDER
    /* insertion order kept */
    for(unsigned i=0;i<K;i++) if(i<n){ bstr *k=NULL; void *v=htp_table_get_index(t,i,&k); assert(v==&vals[i]); assert(k!=NULL && bstr_len(k)==kl[i]);
        for(size_t j=0;j<KL;j++) if(j<kl[i]) assert(bstr_ptr(k)[j]==kb[i][j]);
        if(mode!=0) assert(k==keys[i]); else assert(k!=keys[i]); }
    assert(htp_table_get_index(t,n,NULL)==NULL);
#endif
    /* lookup: first case-insensitive match */
    unsigned char q[KL+1]; size_t ql=in_size_le(KL); for(size_t j=0;j<KL;j++) q[j]=in_u8();
    void *exp=NULL; for(unsigned i=0;i<K;i++) if(i<n && exp==NULL && eq_nocase(kb[i],kl[i],q,ql)) exp=&vals[i];
    assert(htp_table_get_mem(t,q,ql)==exp);
    bstr *qb=bstr_alloc(KL); __CPROVER_assume(qb); for(size_t j=0;j<KL;j++) bstr_ptr(qb)[j]=q[j]; bstr_adjust_len(qb,ql);
    assert(htp_table_get(t,qb)==exp);
#ifndef NO_GETC
    /* get_c: c string (no NUL inside), NUL bytes of the stored key are skipped */
    int hasnul=0; for(size_t j=0;j<KL;j++) if(j<ql && q[j]==0) hasnul=1;
    if(!hasnul){ q[ql]=0; void *expc=NULL; for(unsigned i=0;i<K;i++) if(i<n && expc==NULL && eq_norzero(kb[i],kl[i],q,ql)) expc=&vals[i];
        assert(htp_table_get_c(t,(char*)q)==expc); }
#endif
    VERIF_COVER(n==K && exp==&vals[K-1], "lookup finds last of K");
    VERIF_COVER(n>=2 && exp==&vals[0] && eq_nocase(kb[1],kl[1],q,ql), "duplicate keys: first wins");
    htp_table_clear(t); assert(htp_table_size(t)==0);
    VERIF_WITNESS();
}

/* C17.numbers: htp_parse_positive_integer_whitespace, htp_parse_content_length,
 * htp_parse_chunked_length, htp_parse_status, htp_parse_protocol against reference definitions. */
#include "verif.h"
#include "htp_private.h"
#ifndef N
#define N 8
#endif
static int lws(unsigned char c){ return c==' '||c=='\t'; }
/* LWS* digits+ LWS* in base b -> value, -1 otherwise; *ovf if > INT64_MAX */
static int dig(unsigned char c,int base){ int d=-1; if(c>='0'&&c<='9') d=c-'0'; else if(c>='a'&&c<='z') d=c-'a'+10; else if(c>='A'&&c<='Z') d=c-'A'+10; return (d>=0&&d<base)?d:-1; }
static int ref_piw(const unsigned char *d,size_t n,int base,unsigned __int128 *out){
    size_t i=0; while(i<n&&lws(d[i])) i++; if(i==n) return 0; if(dig(d[i],base)<0) return 0;
    unsigned __int128 v=0; while(i<n&&dig(d[i],base)>=0){ v=v*base+dig(d[i],base); i++; }
    while(i<n){ if(!lws(d[i])) return 0; i++; } *out=v; return 1; }
void harness(void){
    unsigned char buf[N]; for(int i=0;i<N;i++) buf[i]=in_u8();
    size_t len=in_size_le(N);
#ifdef DIGITS
    for(int i=0;i<N;i++) __CPROVER_assume(buf[i]>='0'&&buf[i]<='9');      /* long digit strings: values around 2^31, 2^32, 2^63, 2^64 */
#endif
    bstr *b=bstr_alloc(N); __CPROVER_assume(b); for(int i=0;i<N;i++) bstr_ptr(b)[i]=buf[i]; bstr_adjust_len(b,len);
    unsigned __int128 v=0;
#if FUNC==1
    { int ok=ref_piw(buf,len,10,&v); int64_t r=htp_parse_positive_integer_whitespace(buf,len,10);
      if(ok && v<=(unsigned __int128)INT64_MAX) assert(r==(int64_t)v); else assert(r<0);
      int ok16=ref_piw(buf,len,16,&v); r=htp_parse_positive_integer_whitespace(buf,len,16); if(ok16 && v<=(unsigned __int128)INT64_MAX) assert(r==(int64_t)v); else assert(r<0);
      VERIF_COVER(ok && len==N && lws(buf[0]) && lws(buf[N-1]), "number with LWS both sides"); }
#elif FUNC==2  /* status: 100..999 iff LWS* digits LWS* with that value */
    { int ok=ref_piw(buf,len,10,&v); int r=htp_parse_status(b);
      if(ok && v>=100 && v<=999) assert(r==(int)v); else assert(r==HTP_STATUS_INVALID);
      VERIF_COVER(r==999, "status 999"); VERIF_COVER(ok && v==1000, "status 1000 rejected"); }
#elif FUNC==3  /* content-length: skip leading non-digits, then digits; junk after is tolerated; overflow/absent -> negative */
    { size_t i=0; while(i<len && !(buf[i]>='0'&&buf[i]<='9')) i++;
      int64_t r=htp_parse_content_length(b,NULL);
      if(i==len) assert(r<0);
      else { while(i<len && buf[i]>='0'&&buf[i]<='9'){ v=v*10+(buf[i]-'0'); i++; } if(v<=(unsigned __int128)INT64_MAX) assert(r==(int64_t)v); else assert(r<0); }
      VERIF_COVER(r>0 && i<len, "digits followed by junk"); }
#elif FUNC==4  /* chunk length: hex, optional leading CR/LF/blank, trailing junk cut, <= INT32_MAX */
    { size_t i=0; while(i<len && (buf[i]==0x0d||buf[i]==0x0a||buf[i]==0x20||buf[i]==0x09||buf[i]==0x0b||buf[i]==0x0c)) i++;
      int ext=0; int64_t r=htp_parse_chunked_length(buf,len,&ext);
      if(i==len||dig(buf[i],16)<0) assert(r<0);
      else { size_t s=i; while(i<len && dig(buf[i],16)>=0){ v=v*16+dig(buf[i],16); i++; }
             if(v<=0x7fffffff) assert(r==(int64_t)v); else assert(r<0);
             int semi=0; for(size_t j=0;j<N;j++) if(j>=i && j<len && buf[j]==';') semi=1; assert(ext==semi); }
#if N>=8
      VERIF_COVER(r==0x7fffffff, "INT32_MAX chunk"); VERIF_COVER(r==-1 && len==N, "too large");
#endif
    }
#elif FUNC==5  /* protocol */
    { int r=htp_parse_protocol(b); int e=HTP_PROTOCOL_INVALID;
      if(len==8 && buf[0]=='H'&&buf[1]=='T'&&buf[2]=='T'&&buf[3]=='P'&&buf[4]=='/'&&buf[6]=='.'){ if(buf[5]=='0'&&buf[7]=='9') e=HTP_PROTOCOL_0_9; if(buf[5]=='1'&&buf[7]=='0') e=HTP_PROTOCOL_1_0; if(buf[5]=='1'&&buf[7]=='1') e=HTP_PROTOCOL_1_1; }
      assert(r==e); VERIF_COVER(r==HTP_PROTOCOL_1_1, "1.1"); }
#endif
    VERIF_WITNESS();
}

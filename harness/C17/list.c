/* C17.list: one operation of the real htp_list_array_* from an ARBITRARY ring state of capacity CAP
 * with first==FIRST (constants per query) against the abstract double-ended sequence; ring
 * invariant preserved => histories of any length by induction. */
#include "verif.h"
#include "htp_private.h"
#ifndef CAP
#define CAP 4
#endif
#ifndef FIRST
#define FIRST 0
#endif
static char tags[256];
static int inv(htp_list_array_t *l){ return l->max_size>0 && l->first<l->max_size && l->current_size<=l->max_size && l->last==(l->first+l->current_size)%l->max_size; }
void harness(void){
    htp_list_array_t L;
    void **el=malloc(CAP*sizeof(void*)); __CPROVER_assume(el!=NULL);
    L.elements=el; L.max_size=CAP; L.first=FIRST;
    L.current_size=in_size_le(CAP); L.last=(FIRST+L.current_size)%CAP;
    for(size_t i=0;i<CAP;i++) el[i]=&tags[in_u8()];
    void *pre[CAP]; size_t n=L.current_size;
    for(size_t i=0;i<CAP;i++) pre[i]=el[(FIRST+i)%CAP];
    /* abstraction function agrees with get on the pre-state */
    for(size_t i=0;i<CAP;i++) if(i<n) assert(htp_list_array_get(&L,i)==pre[i]);
    assert(htp_list_array_size(&L)==n);
    unsigned op=in_range(0,5);
    if(op==0){ void *e=&tags[in_u8()]; int rc=htp_list_array_push(&L,e);
        assert(rc==HTP_OK); assert(L.current_size==n+1);
        if(n==CAP) assert(L.max_size==2*CAP); else assert(L.max_size==CAP && L.elements==el);
        for(size_t i=0;i<CAP;i++) if(i<n) assert(htp_list_array_get(&L,i)==pre[i]);
        assert(htp_list_array_get(&L,n)==e); assert(htp_list_array_get(&L,n+1)==NULL);
        VERIF_COVER(n==CAP, "push grows a full ring");
    } else if(op==1){ void *r=htp_list_array_pop(&L);
        if(n==0){ assert(r==NULL); assert(L.current_size==0); }
        else { assert(r==pre[n-1]); assert(L.current_size==n-1); for(size_t i=0;i<CAP;i++) if(i+1<n) assert(htp_list_array_get(&L,i)==pre[i]); assert(htp_list_array_get(&L,n-1)==NULL); }
    } else if(op==2){ void *r=htp_list_array_shift(&L);
        if(n==0){ assert(r==NULL); assert(L.current_size==0); }
        else { assert(r==pre[0]); assert(L.current_size==n-1); for(size_t i=0;i<CAP;i++) if(i+1<n) assert(htp_list_array_get(&L,i)==pre[i+1]); }
    } else if(op==3){ size_t i=in_size(); void *r=htp_list_array_get(&L,i); if(i<n) assert(r==pre[i%CAP]); else assert(r==NULL); assert(L.current_size==n); }
    else if(op==4){ size_t i=in_size(); void *e=&tags[in_u8()]; int rc=htp_list_array_replace(&L,i,e);
        if(i<n){ assert(rc==HTP_OK); } else assert(rc==HTP_DECLINED);
        assert(L.current_size==n);
        for(size_t j=0;j<CAP;j++) if(j<n) assert(htp_list_array_get(&L,j)==((j==i)?e:pre[j]));
        /* slots outside the sequence untouched as well (a later push must not resurrect e) */
        if(i>=n) for(size_t j=0;j<CAP;j++) assert(el[j]==pre[(j+CAP-FIRST)%CAP]);
        VERIF_COVER(i==(size_t)-1, "replace at SIZE_MAX");
    } else { htp_list_array_clear(&L); assert(L.current_size==0); assert(htp_list_array_get(&L,0)==NULL); }
    assert(inv(&L));
    assert(htp_list_array_size(&L)==L.current_size);
    VERIF_WITNESS();
}

/* C17.table key-ownership modes are exclusive: once a table has been used with add / addn / addk,
 * the two other flavours are refused and change nothing. */
#include "verif.h"
#include "htp_private.h"
static char vals[2];
static htp_status_t add(htp_table_t *t,unsigned m,bstr *k,void *v){ return m==0?htp_table_add(t,k,v):m==1?htp_table_addn(t,k,v):htp_table_addk(t,k,v); }
void harness(void){
    htp_table_t *t=htp_table_create(2); __CPROVER_assume(t!=NULL);
    bstr *k1=bstr_alloc(1), *k2=bstr_alloc(1); __CPROVER_assume(k1&&k2);
    bstr_ptr(k1)[0]=in_u8(); bstr_adjust_len(k1,1); bstr_ptr(k2)[0]=in_u8(); bstr_adjust_len(k2,1);
    assert(add(t,MODE,k1,&vals[0])==HTP_OK);
    assert(add(t,MODE2,k2,&vals[1])==(MODE==MODE2?HTP_OK:HTP_ERROR));
    assert(htp_table_size(t)==(MODE==MODE2?2:1));
    assert(htp_table_add(NULL,k1,vals)==HTP_ERROR && htp_table_addn(t,NULL,vals)==HTP_ERROR);
    assert(htp_table_get_index(t,0,NULL)==&vals[0]);
    VERIF_WITNESS();
}

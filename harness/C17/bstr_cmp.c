/* C17.bstr compare / prefix / search family against mathematical definitions.
 * haystack a (<= H bytes), needle b (<= M bytes), all byte values. FUNC selects the group. */
#include "verif.h"
#include "bstr.h"
#ifndef H
#define H 5
#endif
#ifndef M
#define M 3
#endif
static int lc(int c){ return (c>='A'&&c<='Z')?c+32:c; }
static int sgn(int x){ return x<0?-1:(x>0?1:0); }
/* lexicographic compare, optional case folding */
static int ref_cmp(const unsigned char *a,size_t al,const unsigned char *b,size_t bl,int fold){
    for(size_t i=0;i<H;i++){ if(i>=al||i>=bl) break; int x=fold?lc(a[i]):a[i], y=fold?lc(b[i]):b[i]; if(x!=y) return x<y?-1:1; }
    return al==bl?0:(al<bl?-1:1); }
/* a with NUL bytes removed */
static size_t strip0(const unsigned char *a,size_t al,unsigned char *o){ size_t k=0; for(size_t i=0;i<H;i++) if(i<al && a[i]!=0) o[k++]=a[i]; return k; }
static int ref_begins(const unsigned char *a,size_t al,const unsigned char *b,size_t bl,int fold){ if(bl>al) return 0; for(size_t i=0;i<M;i++) if(i<bl){ int x=fold?lc(a[i]):a[i], y=fold?lc(b[i]):b[i]; if(x!=y) return 0; } return 1; }
static int ref_index(const unsigned char *a,size_t al,const unsigned char *b,size_t bl,int fold){
    for(size_t i=0;i<H;i++){ if(i+bl>al) break; int ok=1; for(size_t j=0;j<M;j++) if(j<bl){ int x=fold?lc(a[i+j]):a[i+j], y=fold?lc(b[j]):b[j]; if(x!=y){ok=0;break;} } if(ok) return (int)i; }
    return -1; }
/* first i with a[i]!=0 such that a[i..] with NULs skipped starts with b (case-insensitive) */
static int ref_index_norzero(const unsigned char *a,size_t al,const unsigned char *b,size_t bl){
    for(size_t i=0;i<H;i++){ if(i>=al) break; if(a[i]==0) continue; size_t k=i,j=0; while(j<bl && k<al){ if(a[k]==0){k++;continue;} if(lc(a[k])!=lc(b[j])) break; k++; j++; } if(j==bl) return (int)i; }
    return -1; }
void harness(void){
    bstr *a=bstr_alloc(H), *b=bstr_alloc(M+1); __CPROVER_assume(a&&b);
    unsigned char ra[H], rb[M+1]; size_t al=in_size_le(H), bl=in_size_le(M);
    for(size_t i=0;i<H;i++){ ra[i]=in_u8(); bstr_ptr(a)[i]=ra[i]; }
    for(size_t i=0;i<M;i++){ rb[i]=in_u8(); bstr_ptr(b)[i]=rb[i]; }
    bstr_adjust_len(a,al); bstr_adjust_len(b,bl);
    int bnul=0; for(size_t i=0;i<M;i++) if(i<bl && rb[i]==0) bnul=1;
    rb[bl]=0; bstr_ptr(b)[bl]=0; const char *cb=(const char*)rb;
#if FUNC==1   /* compare */
    assert(sgn(bstr_cmp(a,b))==ref_cmp(ra,al,rb,bl,0));
    assert(sgn(bstr_cmp_mem(a,rb,bl))==ref_cmp(ra,al,rb,bl,0));
    assert(sgn(bstr_cmp_nocase(a,b))==ref_cmp(ra,al,rb,bl,1));
    assert(sgn(bstr_cmp_mem_nocase(a,rb,bl))==ref_cmp(ra,al,rb,bl,1));
    assert(sgn(bstr_util_cmp_mem(ra,al,rb,bl))==ref_cmp(ra,al,rb,bl,0));
    if(!bnul){ assert(sgn(bstr_cmp_c(a,cb))==ref_cmp(ra,al,rb,bl,0)); assert(sgn(bstr_cmp_c_nocase(a,cb))==ref_cmp(ra,al,rb,bl,1)); }
    VERIF_COVER(al==bl && al==M && ref_cmp(ra,al,rb,bl,1)==0 && ref_cmp(ra,al,rb,bl,0)!=0, "equal only after case folding");
#elif FUNC==2 /* compare skipping NULs of the first argument */
    { unsigned char s[H]; size_t sl=strip0(ra,al,s);
      if(!bnul){ assert(sgn(bstr_cmp_c_nocasenorzero(a,cb))==ref_cmp(s,sl,rb,bl,1)); }
      assert(sgn(bstr_util_cmp_mem_nocasenorzero(ra,al,rb,bl))==ref_cmp(s,sl,rb,bl,1));
      VERIF_COVER(!bnul && sl<al && ref_cmp(s,sl,rb,bl,1)==0 && bl>0, "equal after skipping NULs"); }
#elif FUNC==3 /* prefix tests */
    assert(bstr_begins_with(a,b)==ref_begins(ra,al,rb,bl,0));
    assert(bstr_begins_with_mem(a,rb,bl)==ref_begins(ra,al,rb,bl,0));
    assert(bstr_begins_with_nocase(a,b)==ref_begins(ra,al,rb,bl,1));
    assert(bstr_begins_with_mem_nocase(a,rb,bl)==ref_begins(ra,al,rb,bl,1));
    if(!bnul){ assert(bstr_begins_with_c(a,cb)==ref_begins(ra,al,rb,bl,0)); assert(bstr_begins_with_c_nocase(a,cb)==ref_begins(ra,al,rb,bl,1)); }
    VERIF_COVER(bl==M && al>bl && ref_begins(ra,al,rb,bl,1) && !ref_begins(ra,al,rb,bl,0), "prefix only after folding");
#elif FUNC==4 /* search (needle non-empty) */
    __CPROVER_assume(bl>=1);
    assert(bstr_index_of(a,b)==ref_index(ra,al,rb,bl,0));
    assert(bstr_index_of_mem(a,rb,bl)==ref_index(ra,al,rb,bl,0));
    assert(bstr_index_of_nocase(a,b)==ref_index(ra,al,rb,bl,1));
    assert(bstr_index_of_mem_nocase(a,rb,bl)==ref_index(ra,al,rb,bl,1));
    assert(bstr_util_mem_index_of_mem(ra,al,rb,bl)==ref_index(ra,al,rb,bl,0));
    if(!bnul){ assert(bstr_index_of_c(a,cb)==ref_index(ra,al,rb,bl,0)); assert(bstr_index_of_c_nocase(a,cb)==ref_index(ra,al,rb,bl,1));
               assert(bstr_util_mem_index_of_c(ra,al,cb)==ref_index(ra,al,rb,bl,0)); assert(bstr_util_mem_index_of_c_nocase(ra,al,cb)==ref_index(ra,al,rb,bl,1)); }
    VERIF_COVER(ref_index(ra,al,rb,bl,0)==(int)(H-M) && bl==M, "match at the very end");
#elif FUNC==5 /* search skipping NULs in the haystack */
    __CPROVER_assume(bl>=1 && !bnul);
    assert(bstr_index_of_c_nocasenorzero(a,cb)==ref_index_norzero(ra,al,rb,bl));
    assert(bstr_util_mem_index_of_mem_nocasenorzero(ra,al,rb,bl)==ref_index_norzero(ra,al,rb,bl));
    VERIF_COVER(ref_index_norzero(ra,al,rb,bl)>0 && ref_index(ra,al,rb,bl,1)<0, "match only when NULs are skipped");
#elif FUNC==6 /* chr / rchr / char_at / char_at_end */
    { int c=in_int(); __CPROVER_assume(c>=-1 && c<=256); int e=-1; for(size_t i=0;i<H;i++) if(i<al && e<0 && ra[i]==c) e=(int)i; assert(bstr_chr(a,c)==e);
      int r=-1; for(size_t i=0;i<H;i++) if(i<al && ra[i]==c) r=(int)i; assert(bstr_rchr(a,c)==r);
      size_t p=in_size(); assert(bstr_char_at(a,p)==(p<al?(int)ra[p%H]:-1)); assert(bstr_char_at_end(a,p)==(p<al?(int)ra[(al-1-p)%H]:-1));
      VERIF_COVER(e>=0 && r>e, "byte occurs twice"); }
#endif
    VERIF_WITNESS();
}

/* C17.bstr editing primitives: add_mem with growth (real realloc, constant sizes), add_mem_noex
 * truncation, dup_ex, dup_lower/to_lowercase, trim, chop, memdup_to_c, wrap */
#include "verif.h"
#include "bstr.h"
#ifndef H
#define H 4
#endif
#ifndef M
#define M 3
#endif
#ifndef SZ
#define SZ 5   /* allocated size of the destination */
#endif
static int is_ws(unsigned char c){ return c==' '||c=='\t'||c=='\n'||c=='\v'||c=='\f'||c=='\r'; }
void harness(void){
    unsigned char ra[H], rb[M]; size_t al=in_size_le(H<SZ?H:SZ), bl=in_size_le(M);
    for(size_t i=0;i<H;i++) ra[i]=in_u8();
    for(size_t i=0;i<M;i++) rb[i]=in_u8();
    bstr *a=bstr_alloc(SZ); __CPROVER_assume(a); assert(bstr_len(a)==0 && bstr_size(a)==SZ);
    for(size_t i=0;i<H;i++) if(i<al) bstr_ptr(a)[i]=ra[i];
    bstr_adjust_len(a,al);
#if FUNC==1   /* add_mem: grows, result = a ++ b */
    bstr *r=bstr_add_mem(a,rb,bl); __CPROVER_assume(r!=NULL);
    assert(bstr_len(r)==al+bl); assert(bstr_size(r)>=bstr_len(r));
    for(size_t i=0;i<H;i++) if(i<al) assert(bstr_ptr(r)[i]==ra[i]);
    for(size_t i=0;i<M;i++) if(i<bl) assert(bstr_ptr(r)[al+i]==rb[i]);
    VERIF_COVER(al+bl>SZ, "add_mem had to grow");
#elif FUNC==2 /* add_mem_noex: truncates at size, never grows */
    bstr *r=bstr_add_mem_noex(a,rb,bl); assert(r==a); assert(bstr_size(a)==SZ);
    size_t exp=al+bl<=SZ?al+bl:SZ; assert(bstr_len(a)==exp);
    for(size_t i=0;i<H;i++) if(i<al) assert(bstr_ptr(a)[i]==ra[i]);
    for(size_t i=0;i<M;i++) if(al+i<exp) assert(bstr_ptr(a)[al+i]==rb[i]);
    VERIF_COVER(al+bl>SZ && al<SZ, "noex truncated");
#elif FUNC==3 /* dup_ex / dup / dup_mem / dup_lower / to_lowercase */
    size_t off=in_size_le(al), n=in_size_le(al-off);
    bstr *d=bstr_dup_ex(a,off,n); __CPROVER_assume(d); assert(bstr_len(d)==n); for(size_t i=0;i<H;i++) if(i<n) assert(bstr_ptr(d)[i]==ra[off+i]);
    bstr *l=bstr_dup_lower(a); __CPROVER_assume(l); assert(bstr_len(l)==al);
    for(size_t i=0;i<H;i++) if(i<al){ unsigned char c=ra[i]; assert(bstr_ptr(l)[i]==((c>='A'&&c<='Z')?c+32:c)); assert(bstr_ptr(a)[i]==ra[i]); }
    VERIF_COVER(n>0 && off>0, "inner slice");
#elif FUNC==4 /* trim, chop */
    unsigned char *p=ra; size_t l=al; bstr_util_mem_trim(&p,&l);
    size_t s=0,e=al; while(s<e && is_ws(ra[s])) s++; while(e>s && is_ws(ra[e-1])) e--;
    assert(p==ra+s && l==e-s);
    bstr_chop(a); assert(bstr_len(a)==(al?al-1:0));
    VERIF_COVER(s>0 && e<al && e>s, "trimmed both ends");
#elif FUNC==5 /* memdup_to_c: NUL bytes become \0 text, result NUL-terminated */
    char *c=bstr_util_memdup_to_c(ra,al); __CPROVER_assume(c);
    size_t k=0; for(size_t i=0;i<H;i++) if(i<al){ if(ra[i]==0){ assert(c[k]=='\\' && c[k+1]=='0'); k+=2; } else { assert((unsigned char)c[k]==ra[i]); k++; } }
    assert(c[k]==0);
    bstr *w=bstr_wrap_mem(ra,al); __CPROVER_assume(w); assert(bstr_len(w)==al && bstr_ptr(w)==ra); assert(bstr_expand(w,al+1)==NULL);
    VERIF_COVER(al==H && ra[H-1]==0, "trailing NUL escaped");
#endif
    VERIF_WITNESS();
}
